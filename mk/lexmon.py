"""Lexer cursor monitor (C01): records every cascade step of Lexer.parse with the cursor before and
after and the nodes appended, then checks the conservation trace property:

  * the steps tile the source in order (each starts where the previous one ended);
  * every character a step consumed is accounted for by the node(s) it appended or is one of
    the documented vanishing pieces (escaped newline, %% -> %, comment/doc text, directive syntax);
  * every node reports the (line, column) at which its construct starts.

The harness keeps its own copies of the consumption grammar (regexes below); a tree whose lexer
consumes differently shows up as a step whose slice does not match.
"""
import re

STEP_NAMES = [
    "match_end", "match_expression", "match_control_line", "match_comment", "match_tag_start",
    "match_tag_end", "match_python_block", "match_percent", "match_text",
]

RE_CONTROL = re.compile(r"[\t ]*(%(?!%)|##)[\t ]*((?:(?:\\\r?\n)|[^\r\n])*)(?:\r?\n|\Z)")
RE_PERCENT = re.compile(r"(\s*)%%(%*)")
RE_TAG = re.compile(
    r"""\<%([\w\.\:]+)((?:\s+\w+|\s*=\s*|"[^"]*?"|'[^']*?'|\s*,\s*)*)\s*(/)?>""", re.I | re.S
)
RE_TAGEND = re.compile(r"\</%[\t ]*([^\t ]+?)[\t ]*>")
RE_ATTR = re.compile(r"\s*(\w+)\s*=\s*(?:'([^']*)'|\"([^\"]*)\")")


def offset_to_linecol(text, off):
    line = text.count("\n", 0, off) + 1
    col = off - text.rfind("\n", 0, off)
    return line, col


class Step:
    __slots__ = ("name", "before", "after", "nodes", "nested")

    def __init__(self, name, before):
        self.name = name
        self.before = before
        self.after = None
        self.nodes = []
        self.nested = []


def make_monitored_lexer(Lexer):
    class MonLexer(Lexer):
        def __init__(self, *a, **kw):
            super().__init__(*a, **kw)
            self.mon_steps = []
            self.mon_depth = 0
            self.mon_current = None
            self.mon_regs = 0
            self.mon_coding_end = 0

        def match_reg(self, reg):
            self.mon_regs += 1
            m = super().match_reg(reg)
            if reg is Lexer._coding_re and not self.mon_steps and self.mon_current is None:
                self.mon_coding_end = self.match_position
            return m

        def append_node(self, nodecls, *args, **kwargs):
            container = self.tag[-1].nodes if self.tag else self.template.nodes
            n0 = len(container)
            try:
                return super().append_node(nodecls, *args, **kwargs)
            finally:
                if len(container) > n0 and self.mon_current is not None:
                    self.mon_current.nodes.append(container[-1])

    def wrap(name):
        orig = getattr(Lexer, name)

        def stepper(self):
            if self.mon_depth:
                self.mon_current.nested.append(name)
                return orig(self)
            st = Step(name, self.match_position)
            self.mon_current = st
            self.mon_depth += 1
            try:
                r = orig(self)
            finally:
                self.mon_depth -= 1
                self.mon_current = None
            if r:
                st.after = self.match_position
                self.mon_steps.append(st)
            return r

        stepper.__name__ = name
        return stepper

    for nm in STEP_NAMES:
        setattr(MonLexer, nm, wrap(nm))
    return MonLexer


def check_trace(lexer, parsetree, adjust_whitespace):
    """-> list of (kind, detail) problems for a parse that returned."""
    text = lexer.text
    n = len(text)
    probs = []
    pos = lexer.mon_coding_end
    if pos and not re.match(r"#.*coding[:=]\s*([-\w.]+).*\r?\n", text):
        probs.append(("cursor-jump", "parse began at %d without a coding comment" % pos))

    def nodepos(node, off, what):
        exp = offset_to_linecol(text, off)
        if (node.lineno, node.pos) != exp:
            probs.append(
                ("node-position", "%s reports (line,col)=%r but starts at offset %d = %r in %r"
                 % (what, (node.lineno, node.pos), off, exp, text[:200]))
            )

    for st in lexer.mon_steps:
        if st.before != pos:
            probs.append(("cursor-gap", "step %s starts at %d, previous ended at %d" % (st.name, st.before, pos)))
        pos = st.after
        S = text[st.before : min(st.after, n)]
        nm = st.name
        nodes = st.nodes
        if nm == "match_end":
            if st.before != n:
                probs.append(("early-end", "match_end at %d of %d" % (st.before, n)))
            continue
        if st.after > n:
            probs.append(("cursor-overrun", "%s moved the cursor past the end (%d > %d) in %r" % (nm, st.after, n, text[:200])))
        if nm == "match_text":
            T = nodes[0].content if nodes else ""
            if len(nodes) > 1 or (nodes and not isinstance(nodes[0], parsetree.Text)):
                probs.append(("text-nodes", "match_text appended %r" % (nodes,)))
                continue
            if not S.startswith(T):
                probs.append(("text-altered", "Text node %r is not the source slice %r" % (T, S)))
                continue
            R = S[len(T):]
            if R not in ("", "\\\n", "\\\r\n"):
                probs.append(("lost-characters", "characters %r at offset %d consumed by match_text but in no node (source %r)" % (R, st.before + len(T), text[:200])))
            if nodes:
                nodepos(nodes[0], st.before, "Text")
        elif nm == "match_percent":
            m = RE_PERCENT.fullmatch(S)
            if not m or len(nodes) != 1:
                probs.append(("percent-consumption", "match_percent consumed %r -> %r" % (S, nodes)))
                continue
            if nodes[0].content != m.group(1) + "%" + m.group(2):
                probs.append(("percent-text", "%r became %r" % (S, nodes[0].content)))
            nodepos(nodes[0], st.before, "Text(%%)")
        elif nm == "match_control_line":
            m = RE_CONTROL.fullmatch(S)
            if not m or len(nodes) != 1:
                probs.append(("control-consumption", "match_control_line consumed %r -> %r" % (S, nodes)))
                continue
            node = nodes[0]
            if st.before != 0 and text[st.before - 1] != "\n":
                probs.append(("control-not-at-line-start", "control line recognised at offset %d of %r" % (st.before, text[:200])))
            if node.text != m.group(2):
                probs.append(("control-text", "line %r gave node text %r" % (S, node.text)))
            isctl = isinstance(node, parsetree.ControlLine)
            if isctl != (m.group(1) == "%"):
                probs.append(("control-kind", "line %r gave %r" % (S, node)))
            nodepos(node, st.before, "ControlLine/Comment")
        elif nm == "match_comment":
            if len(nodes) != 1 or not isinstance(nodes[0], parsetree.Comment) or S != "<%doc>" + nodes[0].text + "</%doc>" or "</%doc>" in nodes[0].text:
                probs.append(("doc-consumption", "match_comment consumed %r -> %r" % (S, nodes)))
                continue
            nodepos(nodes[0], st.before, "Comment(doc)")
        elif nm == "match_expression":
            if len(nodes) != 1 or not isinstance(nodes[0], parsetree.Expression) or not (S.startswith("${") and S.endswith("}")):
                probs.append(("expr-consumption", "match_expression consumed %r -> %r" % (S, nodes)))
                continue
            node = nodes[0]
            inner = S[2:-1]
            ok = False
            cuts = [i for i, c in enumerate(inner) if c == "|"] + [len(inner)]
            for i in cuts:
                raw = inner[:i]
                if raw.replace("\r\n", "\n") != node.text:
                    continue
                if i == len(inner):
                    ok = node.escapes == ""
                else:
                    ok = inner[i + 1:].strip() == node.escapes
                if ok:
                    break
            if not ok:
                probs.append(("expr-text", "expression %r gave text %r escapes %r" % (S, node.text, node.escapes)))
            nodepos(node, st.before, "Expression")
        elif nm == "match_python_block":
            if len(nodes) != 1 or not isinstance(nodes[0], parsetree.Code) or not (S.startswith("<%") and S.endswith("%>")):
                probs.append(("code-consumption", "match_python_block consumed %r -> %r" % (S, nodes)))
                continue
            node = nodes[0]
            body = S[3:-2] if node.ismodule else S[2:-2]
            if node.ismodule != S.startswith("<%!"):
                probs.append(("code-kind", "%r gave ismodule=%r" % (S, node.ismodule)))
            if node.text != adjust_whitespace(body) + "\n":
                probs.append(("code-text", "block %r gave text %r" % (S, node.text)))
            nodepos(node, st.before, "Code")
        elif nm == "match_tag_start":
            m = RE_TAG.match(S)
            if not m or not nodes or not isinstance(nodes[0], parsetree.Tag):
                probs.append(("tag-consumption", "match_tag_start consumed %r -> %r" % (S, nodes)))
                continue
            tag = nodes[0]
            if tag.keyword != m.group(1):
                probs.append(("tag-keyword", "%r gave keyword %r" % (S, tag.keyword)))
            attrs = {}
            for k, v1, v2 in RE_ATTR.findall(m.group(2) or ""):
                attrs[k] = (v1 or v2).replace("\r\n", "\n")
            if dict(tag.attributes) != attrs:
                probs.append(("tag-attributes", "%r gave attributes %r, expected %r" % (S, tag.attributes, attrs)))
            nodepos(tag, st.before, "Tag")
            rest = S[m.end():]
            if m.group(1) == "text" and not m.group(3):
                if len(nodes) != 2 or not isinstance(nodes[1], parsetree.Text) or not rest.endswith("</%text>"):
                    probs.append(("texttag-consumption", "<%%text> consumed %r -> %r" % (S, nodes)))
                    continue
                body = rest[: -len("</%text>")]
                if nodes[1].content != body or "</%text>" in body:
                    probs.append(("texttag-body", "<%%text> body %r gave %r" % (body, nodes[1].content)))
                nodepos(nodes[1], st.before + m.end(), "Text(in <%text>)")
            elif rest or len(nodes) != 1:
                probs.append(("tag-consumption", "match_tag_start consumed %r beyond the tag -> %r" % (S, nodes)))
        elif nm == "match_tag_end":
            if not RE_TAGEND.fullmatch(S) or nodes:
                probs.append(("tagend-consumption", "match_tag_end consumed %r -> %r" % (S, nodes)))
    if pos < n:
        probs.append(("unconsumed-tail", "parse returned with the cursor at %d of %d" % (pos, n)))
    if not lexer.mon_steps and n:
        probs.append(("no-steps", "parse returned without any cascade step"))
    return probs

"""Child for C20: runs both extractors over a list of templates under the PYTHONHASHSEED it was started with and
prints one JSON list of [[line, function, message], ...] per template and extractor."""
import io
import json
import sys


class _Opts:
    keywords = []
    domain = None
    comment_tag = "TRANSLATORS:"

    def __getattr__(self, k):
        return None


def main():
    spec = json.load(open(sys.argv[1]))
    sys.path.insert(0, spec["repo"])
    from lingua.extractors import register_extractors
    from mako.ext import babelplugin, linguaplugin

    register_extractors()

    out = []
    for text in spec["texts"]:
        b = [[ln, fn, list(m) if isinstance(m, tuple) else m] for ln, fn, m, _c in babelplugin.extract(io.BytesIO(text.encode("utf-8")), ["_", "gettext", "ngettext"], [], {"encoding": "utf-8"})]
        ext = linguaplugin.LinguaMakoExtractor({"comment-tags": "TRANSLATORS:", "encoding": "utf-8"})
        lg = [[m.location[1], m.msgid] for m in ext("t.mako", _Opts(), io.StringIO(text))]
        out.append({"babel": b, "lingua": lg})
    print(json.dumps(out))


main()

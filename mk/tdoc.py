"""TDoc: small template documents with a by-construction oracle (C05, C13).

A document is a tree of tuples; emit() prints Mako source, Model.render() gives the output demanded
by the property statements without calling Mako:
  * a render owns a stack of buffers; text and expression results go to the top one;
  * a plain def writes where its body runs and returns ''; a buffered def returns
    buffer_filters(filter(content)); a def with filter= writes filter(content) once on exit;
    capture(f) returns what f would have written; a decorator wraps the call;
  * a call with content gives the callee a `caller` whose body(**args) / nested defs are closures of
    the calling scope; every def invocation has its own caller (None when called plainly) and the
    caller seen by the code around a call is what it was before;
  * an exception unwinds constructs innermost first, abandoned buffers are dropped, direct writes stay.

Node kinds (tuples):
  ("T", text)                               literal text
  ("V", name)                               ${name}
  ("C", defname, args, how)                 def call; args = [("pos", val) | ("kw", key, val)], val = ("lit", s) | ("var", n) | ("call", defname)
                                            how in expr | concat | capture | self
  ("CC", defname, args, bodyargs, body, nested, style)   call with content; style ns | call
  ("CB", passed)                            ${caller.body(k=v, ...)}   passed = [(key, val)]
  ("CN", name)                              ${caller.name()}
  ("IF", flag, body)   ("FOR", var, n, body)   ("TRY", body, handler)   ("RAISE", tag)
  ("TF", body)                              <%text filter="fz">-like filtered block: <%block filter="fz">
  ("INC", uri)                              <%include file=uri/>
  ("CP",)                                   caller probe: ${'C1' if caller else 'C0'}
Defs: {"name", "sig": [(name, kind, default)], "buffered", "filter", "decorator", "body", "nested": [defs]}
"""
import inspect

MODULE_BLOCK = (
    "<%!\n"
    "class Boom(Exception):\n    pass\n"
    "def fz(s):\n    return 'fz(' + s + ')'\n"
    "def gz(s):\n    return 'gz(' + s + ')'\n"
    "def deco(fn):\n"
    "    def decorate(context, *args, **kw):\n"
    "        context.write('deco<')\n"
    "        try:\n"
    "            return fn(*args, **kw)\n"
    "        finally:\n"
    "            context.write('>')\n"
    "    return decorate\n"
    "def kdeco(fn):\n"
    "    def decorate(context, *args, **kw):\n"
    "        kw = dict(kw, injected='INJ')  # the wrapper decides which keyword arguments the def receives\n"
    "        context.write('kdeco<')\n"
    "        try:\n"
    "            return fn(*args, **kw)\n"
    "        finally:\n"
    "            context.write('>')\n"
    "    return decorate\n"
    "def rz(s):\n"
    "    import builtins\n"
    "    b = getattr(builtins, '_verif_boom', None)\n"
    "    if b is not None and b[0] == 'filter':\n        raise b[1]\n"
    "    return 'rz(' + s + ')'\n"
    "def rdeco(fn):\n"
    "    def decorate(context, *args, **kw):\n"
    "        import builtins\n"
    "        b = getattr(builtins, '_verif_boom', None)\n"
    "        context.write('rdeco<')\n"
    "        if b is not None and b[0] == 'deco-before':\n            raise b[1]\n"
    "        try:\n"
    "            r = fn(*args, **kw)\n"
    "            if b is not None and b[0] == 'deco-after':\n                raise b[1]\n"
    "            return r\n"
    "        finally:\n"
    "            context.write('>')\n"
    "    return decorate\n"
    "%>"
)


class Boom(Exception):
    pass


class BoomBase(BaseException):
    """an exception that is not an Exception (like KeyboardInterrupt, asyncio.CancelledError, gevent.Timeout)"""


EXCEPT_CLAUSE = "Exception"   # what a generated `% except` names; C13 switches it to BaseException for BoomBase runs


class TooLarge(BaseException):
    """the document expands to more steps than the check wants to spend on one case"""


# ------------------------------------------------------------------------------------ emitter
def val_src(v):
    if v[0] == "lit":
        return repr(v[1])
    if v[0] == "var":
        return v[1]
    if v[0] == "call":
        return "%s()" % v[1]
    if v[0] == "rf":
        return "raiser()"
    raise ValueError(v)


def args_src(args):
    out = []
    for a in args:
        if a[0] == "pos":
            out.append(val_src(a[1]))
        else:
            out.append("%s=%s" % (a[1], val_src(a[2])))
    return ", ".join(out)


# quirk universe for the open finding C05/bare-star-dropped: the generated signature lacks the bare '*', so
# keyword-only parameters can also be filled positionally
DROP_BARE_STAR = False


def sig_src(sig, for_model=False):
    parts = []
    seen_star = False
    for name, kind, default in sig:
        if kind == "pos":
            parts.append(name)
        elif kind == "default":
            parts.append("%s=%r" % (name, default))
        elif kind == "cdefault":
            parts.append("%s=zctx" % name)  # a default that reads a context variable mentioned nowhere else
        elif kind == "rdefault":
            parts.append("%s=raiser()" % name)  # a default whose evaluation may raise (when the def is DEFINED)
        elif kind == "varargs":
            parts.append("*" + name)
            seen_star = True
        elif kind == "kwonly":
            if not seen_star:
                if not (for_model and DROP_BARE_STAR):
                    parts.append("*")
                seen_star = True
            parts.append(name if default is None else "%s=%r" % (name, default))
        elif kind == "kwargs":
            parts.append("**" + name)
    return ", ".join(parts)


def emit_nodes(nodes, out):
    for n in nodes:
        k = n[0]
        if k == "T":
            out.append(n[1])
        elif k == "V":
            out.append("${%s}" % n[1])
        elif k == "C":
            _, name, args, how = n
            a = args_src(args)
            if how == "expr":
                out.append("${%s(%s)}" % (name, a))
            elif how == "concat":
                out.append("${'<' + %s(%s) + '>'}" % (name, a))
            elif how == "capture":
                out.append("${'{' + capture(%s%s) + '}'}" % (name, (", " + a) if a else ""))
            elif how == "self":
                out.append("${self.%s(%s)}" % (name, a))
        elif k == "CC":
            _, name, args, bodyargs, body, nested, style = n
            ba = ' args="%s"' % ", ".join(bodyargs) if bodyargs else ""
            if style == "ns":
                attrs = ""
                for a in args:
                    assert a[0] == "kw"
                    v = a[2]
                    if v[0] == "lit":
                        attrs += ' %s="%s"' % (a[1], v[1])
                    elif v[0] == "var":
                        attrs += ' %s="${%s}"' % (a[1], v[1])
                    elif v[0] == "mix":
                        attrs += ' %s="%s${%s}%s"' % (a[1], v[1], v[2], v[3])
                    elif v[0] == "mix2":
                        attrs += ' %s="%s${%s}%s${%s}%s"' % (a[1], v[1], v[2], v[3], v[4], v[5])
                out.append("<%%self:%s%s%s>" % (name, attrs, ba))
                close = "</%%self:%s>" % name
            else:
                out.append('<%%call expr="%s(%s)"%s>' % (name, args_src(args), ba))
                close = "</%call>"
            for d in nested:
                emit_def(d, out)
            emit_nodes(body, out)
            out.append(close)
        elif k == "CB":
            out.append("${caller.body(%s)}" % ", ".join("%s=%s" % (kk, val_src(v)) for kk, v in n[1]))
        elif k == "CN":
            out.append("${caller.%s()}" % n[1])
        elif k == "IF":
            out.append("\n%% if %s:\n" % n[1])
            emit_nodes(n[2], out)
            out.append("\n% endif\n")
        elif k == "FOR":
            if len(n) > 4 and n[4]:
                # the iterable expression itself may raise (raiser() returns a true value when disarmed)
                out.append("\n%% for %s in (raiser() and 'abc')[:%d]:\n" % (n[1], n[2]))
            else:
                out.append("\n%% for %s in 'abc'[:%d]:\n" % (n[1], n[2]))
            emit_nodes(n[3], out)
            out.append("\n% endfor\n")
        elif k == "TRY":
            out.append("\n% try:\n")
            emit_nodes(n[1], out)
            out.append("\n%% except %s as e_:\n" % EXCEPT_CLAUSE)
            # (the text of a TypeError raised by a call that does not bind names the callable the way CPython does for
            # generated code - `render_d1.<locals>.d2() got ...` - which no reference interpreter reproduces: its type is shown)
            out.append("[caught ${'TypeError' if isinstance(e_, TypeError) else str(e_)}]")
            emit_nodes(n[2], out)
            out.append("\n% endtry\n")
        elif k == "RAISE":
            out.append("<%\nif armed:\n    raise boom\n%>")
        elif k == "TF":
            out.append('<%block filter="fz">')
            emit_nodes(n[1], out)
            out.append("</%block>")
        elif k == "TX":
            out.append('<%text filter="gz">' + n[1] + "</%text>")
        elif k == "INC":
            out.append('<%%include file="%s"/>' % n[1])
        elif k == "LI":
            out.append("${loop.index}")
        elif k == "CP":
            out.append("${'C1' if caller else 'C0'}")
        elif k == "NB":
            out.append("${next.body()}")
        elif k == "RF":
            out.append("${raiser()}")
        else:
            raise ValueError(n)


def emit_def(d, out):
    attrs = ""
    if d.get("buffered"):
        attrs += ' buffered="True"'
    if d.get("filter"):
        attrs += ' filter="%s"' % d["filter"]
    if d.get("decorator"):
        attrs += ' decorator="%s"' % ("deco" if d["decorator"] is True else d["decorator"])
    if d.get("cached"):
        attrs += ' cached="True" cache_key="%s"' % d["cached"]
    out.append('<%%def name="%s(%s)"%s>' % (d["name"], sig_src(d["sig"]), attrs))
    for nd in d.get("nested", []):
        emit_def(nd, out)
    emit_nodes(d["body"], out)
    out.append("</%def>")


def emit(doc):
    out = [MODULE_BLOCK]
    emit_nodes(doc["body"], out)
    for d in doc["defs"]:
        emit_def(d, out)
    return "".join(out)


# ------------------------------------------------------------------------------------ model
class Caller:
    def __init__(self, body, nested):
        self.body = body
        self.nested = nested


TOPLEVEL = {"vars": [], "defs": [], "caller": None, "loops": []}


class Model:
    # Mako sets the pending `caller` of a <%call expr="f(g())"> BEFORE the expression is evaluated, so a def called
    # inside the argument list (g) runs with that caller as well (recorded as finding C05/def-in-call-arguments-sees-
    # caller).  Checks whose subject is something else (C13) switch this on to follow Mako as it is.
    CCALL_ARG_CALLER = False

    def __init__(self, doc, context, includes=None, buffer_filters=(), boom_mode=None, include_handler=False, child=None):
        self.doc = doc
        self.boom_mode = boom_mode      # None | filter | deco-before | deco-after: where rz / rdeco raise
        self.include_handler = include_handler
        self.child = child              # (doc, includes) of the inheriting template, for ("NB",)
        self.context = dict(context)
        self.buffers = [[]]
        self.defs = {d["name"]: d for d in doc["defs"]}
        self.includes = includes or {}
        self.buffer_filters = list(buffer_filters)
        self.events = set()
        self.cache = {}
        self.steps = 0
        self.max_steps = 20000

    # -- output
    def write(self, s):
        self.buffers[-1].append(s)

    def push(self):
        self.buffers.append([])

    def pop(self):
        return "".join(self.buffers.pop())

    def apply(self, names, s):
        for n in names:
            s = {"fz": lambda t: "fz(" + t + ")", "gz": lambda t: "gz(" + t + ")"}[n](s)
        return s

    # -- scopes: a scope is a list of dicts, innermost last; defs visible: closure defs then top-level
    def lookup(self, scope, name):
        for d in reversed(scope["vars"]):
            if name in d:
                return d[name]
        if name in self.context:
            return self.context[name]
        raise NameError(name)

    def find_def(self, scope, name):
        for d in reversed(scope["defs"]):
            if name in d:
                return d[name]
        return (self.defs[name], {"vars": [], "defs": [], "caller": None, "loops": []})

    def value(self, v, scope, arg_caller=None):
        if v[0] == "lit":
            return v[1]
        if v[0] == "var":
            return self.lookup(scope, v[1])
        if v[0] == "call":
            return self.call_def(v[1], [], {}, scope, caller=arg_caller if self.CCALL_ARG_CALLER else None)
        if v[0] in ("mix", "mix2"):
            # literal parts and ${} values are joined with `+` in the order written; empty literal parts do not exist,
            # so a value standing alone keeps its type and str + non-str is Python's TypeError
            parts = []
            for j, piece in enumerate(v[1:]):
                if j % 2 == 0:
                    if piece:
                        parts.append(piece)
                else:
                    parts.append(self.lookup(scope, piece))
            acc = parts[0]
            for piece in parts[1:]:
                acc = acc + piece
            return acc
        if v[0] == "rf":
            if self.context.get("armed"):
                self.events.add("raised")
                raise self.context["boom"]
            return "rf"
        raise ValueError(v)

    def eval_args(self, args, scope, arg_caller=None):
        pos, kw = [], {}
        for a in args:
            if a[0] == "pos":
                pos.append(self.value(a[1], scope, arg_caller))
            else:
                kw[a[1]] = self.value(a[2], scope, arg_caller)
        return pos, kw

    # -- def invocation; returns the call's return value
    def call_def(self, name, pos, kw, scope, caller=None):
        d, defscope = self.find_def(scope, name)
        return self.invoke(d, defscope, pos, kw, caller)

    def invoke(self, d, defscope, pos, kw, caller):
        sig = inspect.signature(eval("lambda %s: None" % sig_src(d["sig"], for_model=True), {"raiser": lambda: "rf", "zctx": self.context.get("zctx")}))
        if d.get("decorator") == "kdeco":
            kw = dict(kw, injected="INJ")  # what the decorator's wrapper passes on is what the def receives
        ba = sig.bind(*pos, **kw)  # TypeError for a wrong call: as Python
        ba.apply_defaults()
        local = dict(ba.arguments)
        nested = {nd["name"]: None for nd in d.get("nested", [])}
        scope = {"vars": defscope["vars"] + [local], "defs": defscope["defs"] + [nested], "caller": caller, "loops": []}
        for nd in d.get("nested", []):
            nested[nd["name"]] = (nd, scope)
        self.events.add("def")

        def run_body():
            # the nested defs of d are defined (their argument defaults evaluated) when d starts, before its body
            for nd in d.get("nested", []):
                if any(k == "rdefault" for _, k, _ in nd["sig"]) and self.context.get("armed"):
                    self.events.add("raised")
                    raise self.context["boom"]
            self.run(d["body"], scope)

        if d.get("cached"):
            key = d["cached"]
            if key in self.cache:
                self.events.add("cache-hit")
                content = self.cache[key]
            else:
                self.push()
                try:
                    run_body()
                finally:
                    content = self.pop()
                self.cache[key] = content
            self.write(content)
            return ""
        if d.get("decorator") == "rdeco":
            self.write("rdeco<")
            if self.boom_mode == "deco-before" and self.context.get("armed"):
                self.events.add("raised")
                raise self.context["boom"]
            try:
                r = self.plain(d, run_body)
                if self.boom_mode == "deco-after" and self.context.get("armed"):
                    self.events.add("raised")
                    raise self.context["boom"]
                return r
            finally:
                self.write(">")
        if d.get("decorator"):
            self.write("kdeco<" if d["decorator"] == "kdeco" else "deco<")
            try:
                return self.plain(d, run_body)
            finally:
                self.write(">")
        return self.plain(d, run_body)

    def plain(self, d, run_body):
        if d.get("buffered") or d.get("filter"):
            self.push()
            ok = False
            try:
                run_body()
                ok = True
            finally:
                content = self.pop()  # abandoned when an exception passes through
            if d.get("filter") == "rz":
                if self.boom_mode == "filter" and self.context.get("armed"):
                    self.events.add("raised")
                    raise self.context["boom"]
                content = "rz(" + content + ")"
            elif d.get("filter"):
                content = self.apply([d["filter"]], content)
            if d.get("buffered"):
                self.events.add("buffered")
                return self.apply(self.buffer_filters, content)
            self.events.add("filtered")
            self.write(content)
            return ""
        run_body()
        return ""

    # -- statements
    def run(self, nodes, scope):
        for n in nodes:
            self.steps += 1
            if self.steps > self.max_steps:
                raise TooLarge()
            k = n[0]
            if k == "T":
                self.write(n[1])
            elif k == "V":
                self.write(str(self.lookup(scope, n[1])))
            elif k == "C":
                _, name, args, how = n
                pos, kw = self.eval_args(args, scope)
                if how == "self":
                    # self.<name> is the template's top-level def, whatever the name means locally
                    self.write(str(self.call_def(name, pos, kw, TOPLEVEL)))
                elif how == "expr":
                    self.write(str(self.call_def(name, pos, kw, scope)))
                elif how == "concat":
                    r = self.call_def(name, pos, kw, scope)
                    self.write("<" + r + ">")
                    self.events.add("concat")
                elif how == "capture":
                    self.push()
                    try:
                        self.call_def(name, pos, kw, scope)
                    finally:
                        got = self.pop()
                    self.write("{" + got + "}")
                    self.events.add("capture")
            elif k == "CC":
                _, name, args, bodyargs, body, nested, style = n
                self.events.add("ccall")
                cdefs = {nd["name"]: None for nd in nested}
                cscope = {"vars": scope["vars"], "defs": scope["defs"] + [cdefs], "caller": scope["caller"], "loops": scope["loops"]}
                for nd in nested:
                    cdefs[nd["name"]] = (nd, cscope)

                def body_fn(_body=body, _ba=bodyargs, _sc=cscope, **passed):
                    sig = inspect.signature(eval("lambda %s: None" % ", ".join(_ba)))
                    b = sig.bind(**passed)
                    sc = {"vars": _sc["vars"] + [dict(b.arguments)], "defs": _sc["defs"], "caller": _sc["caller"], "loops": _sc["loops"]}
                    self.run(_body, sc)
                    return ""

                caller = Caller(body_fn, cdefs)
                pos, kw = self.eval_args(args, scope, arg_caller=caller if style == "call" else None)
                self.write(str(self.call_def(name, pos, kw, TOPLEVEL if style == "ns" else scope, caller=caller)))  # <%self:name> = self.name
            elif k == "CB":
                c = scope["caller"]
                if c is None:
                    raise AttributeError("caller is None")
                self.events.add("caller.body")
                passed = {kk: self.value(v, scope) for kk, v in n[1]}
                self.write(str(c.body(**passed)))
            elif k == "CN":
                c = scope["caller"]
                d, dscope = c.nested[n[1]]
                self.write(str(self.invoke(d, dscope, [], {}, None)))
                self.events.add("caller.nested")
            elif k == "IF":
                self.write("\n")
                if self.lookup(scope, n[1]):
                    self.run(n[2], scope)
                    self.write("\n")
            elif k == "FOR":
                self.write("\n")
                if len(n) > 4 and n[4] and self.context.get("armed"):
                    self.events.add("raised")
                    raise self.context["boom"]
                for idx, i in enumerate("abc"[: n[2]]):
                    sc = {"vars": scope["vars"] + [{n[1]: i}], "defs": scope["defs"], "caller": scope["caller"], "loops": scope["loops"] + [idx]}
                    self.run(n[3], sc)
                    self.write("\n")
            elif k == "TRY":
                self.write("\n")
                depth = len(self.buffers)
                try:
                    self.run(n[1], scope)
                    self.write("\n")
                except (Exception, BoomBase) as e:
                    assert len(self.buffers) == depth
                    self.events.add("handled")
                    self.write("[caught %s]" % ("TypeError" if isinstance(e, TypeError) else e))
                    self.run(n[2], scope)
                    self.write("\n")
            elif k == "RAISE":
                if self.context.get("armed"):
                    self.events.add("raised")
                    raise self.context["boom"]
            elif k == "RF":
                if self.context.get("armed"):
                    self.events.add("raised")
                    raise self.context["boom"]
                self.write("rf")
            elif k == "LI":
                self.write(str(scope["loops"][-1]))
            elif k == "CP":
                # caller probe: every def invocation has its own caller, none when called plainly
                self.write("C1" if scope["caller"] is not None else "C0")
            elif k == "NB":
                cdoc = self.child
                sub = Model(cdoc, self.context, self.includes, self.buffer_filters, self.boom_mode, self.include_handler)
                sub.buffers = self.buffers
                sub.events = self.events
                sub.cache = self.cache
                sub.steps = self.steps
                try:
                    sub.run(cdoc["body"], {"vars": [], "defs": [], "caller": None, "loops": []})
                finally:
                    self.steps = sub.steps
            elif k == "TF":
                self.push()
                try:
                    self.run(n[1], scope)
                finally:
                    content = self.pop()
                self.write("fz(" + content + ")")
            elif k == "TX":
                self.write("gz(" + n[1] + ")")
            elif k == "INC":
                sub = Model(self.includes[n[1]], self.context, self.includes, self.buffer_filters, self.boom_mode, self.include_handler)
                sub.cache = self.cache
                sub.buffers = self.buffers
                sub.events = self.events
                sub.steps = self.steps
                try:
                    sub.run(sub.doc["body"], {"vars": [], "defs": [], "caller": None, "loops": []})
                except Exception:
                    self.steps = sub.steps
                    if not self.include_handler:
                        raise
                    self.events.add("include-handled")
                self.steps = sub.steps
            else:
                raise ValueError(n)

    def render(self):
        """-> ('out', text) | ('exc', exception)"""
        scope = {"vars": [], "defs": [], "caller": None, "loops": []}
        try:
            self.run(self.doc["body"], scope)
        except (Exception, BoomBase) as e:
            # what the outermost buffer holds is discarded by render(); kept for render_context checks
            self.partial = "".join(self.buffers[0])
            return ("exc", e)
        return ("out", "".join(self.buffers[0]))

"""Deterministic thread scheduler for C16.

Every managed thread runs only while it holds the turn.  Scheduling points are raised
  * by `point(tag)` calls placed in wrappers (lock acquire/release, os.stat, os.path.isfile, collection
    access, Template construction), and
  * from sys.monitoring LINE events of chosen code objects (line-level exploration).
`SchedLock` replaces TemplateLookup._mutex: it never blocks in C; a thread that finds it taken is marked
blocked and yields, which is what makes deadlock detection possible (no runnable thread, some blocked).

A schedule is the list of choices made at the decision points (points where more than one thread could
run).  Strategies: replay of a prefix + default (DFS enumeration, optionally preemption-bounded), and
seeded random priorities (PCT-like).
"""
import sys
import threading

RUNNABLE, BLOCKED, DONE = "runnable", "blocked", "done"


class Abort(BaseException):
    """raised inside managed threads to unwind them after a deadlock / at teardown"""


class SThread:
    def __init__(self, sched, idx, fn):
        self.sched = sched
        self.idx = idx
        self.fn = fn
        self.state = RUNNABLE
        self.waiting_on = None
        self.event = threading.Event()
        self.result = None
        self.exc = None
        self.thread = threading.Thread(target=self._main, name="sched-%d" % idx, daemon=True)

    def _main(self):
        self.event.wait()
        self.event.clear()
        s = self.sched
        try:
            if s.aborting:
                raise Abort()
            self.result = self.fn()
        except Abort:
            pass
        except BaseException as e:  # the operation's own exception is a result
            self.exc = e
        finally:
            s._finished(self)


class DFS:
    """replays `prefix`, then always takes option 0 (keep the current thread running / lowest thread)"""

    def __init__(self, prefix=(), bound=None):
        self.prefix = list(prefix)
        self.bound = bound
        self.decisions = []  # (n_options, chosen, preemptive_options)
        self.preemptions = 0

    def choose(self, me, cands, tag):
        # options: the current thread first (no preemption), then the others by index
        opts = ([me] if me is not None and me in cands else []) + sorted((c for c in cands if c is not me), key=lambda t: t.idx)
        if len(opts) == 1:
            return opts[0]
        d = len(self.decisions)
        pre = me is not None and me in cands
        if self.bound is not None and pre and self.preemptions >= self.bound:
            # bound reached: no further preemption possible here, not a decision point
            return opts[0]
        k = self.prefix[d] if d < len(self.prefix) else 0
        if k >= len(opts):
            k = 0
        self.decisions.append((len(opts), k, pre))
        if pre and k > 0:
            self.preemptions += 1
        return opts[k]

    def next_prefix(self):
        """the next schedule in DFS order, or None"""
        ds = self.decisions
        i = len(ds) - 1
        while i >= 0:
            n, k, pre = ds[i]
            if k + 1 < n:
                return [c for _, c, _ in ds[:i]] + [k + 1]
            i -= 1
        return None


class RandomPriority:
    """PCT-like: random priorities, a few priority change points"""

    def __init__(self, rng, nthreads, depth=3, steps=200):
        self.rng = rng
        self.prio = list(range(nthreads))
        rng.shuffle(self.prio)
        self.change = sorted(rng.sample(range(1, steps), min(depth, steps - 1)))
        self.step = 0
        self.decisions = []

    def choose(self, me, cands, tag):
        self.step += 1
        if self.change and self.step >= self.change[0]:
            self.change.pop(0)
            if me is not None:
                self.prio[me.idx] = min(self.prio) - 1
        best = max(cands, key=lambda t: self.prio[t.idx])
        if len(cands) > 1:
            self.decisions.append((len(cands), best.idx, False))
        return best


class Sched:
    def __init__(self, strategy, max_points=200000):
        self.strategy = strategy
        self.threads = []
        self.cur = None
        self.done = threading.Event()
        self.aborting = False
        self.deadlock = None
        self.trace = []          # (thread idx, tag) at every point
        self.coarse = []         # projection on coarse tags, for counting distinct interleavings
        self.npoints = 0
        self.max_points = max_points
        self.livelock = False
        self._tl = threading.local()

    # ---- setup
    def spawn(self, fn):
        t = SThread(self, len(self.threads), fn)
        self.threads.append(t)
        return t

    def me(self):
        return getattr(self._tl, "t", None)

    def run(self, timeout=60):
        for t in self.threads:
            orig = t.fn

            def wrapped(t=t, orig=orig):
                self._tl.t = t
                return orig()

            t.fn = wrapped
            t.thread.start()
        first = self.strategy.choose(None, [t for t in self.threads if t.state == RUNNABLE], "start")
        self.cur = first
        first.event.set()
        ok = self.done.wait(timeout)
        if not ok:
            self.stuck = self._describe_stuck()
            self.aborting = True
            self.livelock = True
            for t in self.threads:
                t.event.set()
        for t in self.threads:
            t.thread.join(5)
        return ok

    def _describe_stuck(self):
        """where the thread that holds the turn is, sampled twice a second apart: the same position both times, while
        every other thread is finished or parked by this scheduler, means it waits for something nobody can provide"""
        import sys
        import time
        import traceback

        cur = self.cur

        def snap():
            fr = sys._current_frames().get(cur.thread.ident) if cur is not None else None
            if fr is None:
                return None
            return [(f.f_code.co_filename, ln, f.f_code.co_name) for f, ln in traceback.walk_stack(fr)][:8]

        a = snap()
        time.sleep(1.0)
        b = snap()
        return {"thread": cur.idx if cur is not None else None, "same_position": a is not None and a == b,
                "stack": ["%s:%d %s" % x for x in (a or [])]}

    # ---- scheduling points (called by the thread that holds the turn)
    def point(self, tag, coarse=True):
        me = self.me()
        if me is None or me is not self.cur or self.aborting:
            if self.aborting and me is not None:
                raise Abort()
            return
        self.npoints += 1
        if self.npoints > self.max_points:
            self.livelock = True
            self._abort_all()
            raise Abort()
        self.trace.append((me.idx, tag))
        if coarse:
            self.coarse.append((me.idx, tag))
        cands = [t for t in self.threads if t.state == RUNNABLE]
        nxt = self.strategy.choose(me, cands, tag)
        if nxt is not me:
            self._switch(me, nxt)

    def _switch(self, me, nxt):
        self.cur = nxt
        nxt.event.set()
        me.event.wait()
        me.event.clear()
        if self.aborting:
            raise Abort()

    def block(self, on):
        """the current thread cannot proceed until `on` wakes it"""
        me = self.me()
        me.state = BLOCKED
        me.waiting_on = on
        self.trace.append((me.idx, "blocked"))
        cands = [t for t in self.threads if t.state == RUNNABLE]
        if not cands:
            self.deadlock = "no runnable thread: %s" % ", ".join("thread %d %s on %s" % (t.idx, t.state, t.waiting_on) for t in self.threads)
            self._abort_all()
            raise Abort()
        nxt = self.strategy.choose(None, cands, "blocked")
        self._switch(me, nxt)

    def wake(self, t):
        t.state = RUNNABLE
        t.waiting_on = None

    def _finished(self, me):
        me.state = DONE
        if self.aborting:
            if all(t.state == DONE or not t.thread.is_alive() or t is me for t in self.threads):
                self.done.set()
            return
        cands = [t for t in self.threads if t.state == RUNNABLE]
        if cands:
            nxt = self.strategy.choose(None, cands, "finished")
            self.cur = nxt
            nxt.event.set()
            return
        if any(t.state == BLOCKED for t in self.threads):
            self.deadlock = "thread %d finished; %s" % (me.idx, ", ".join("thread %d blocked on %s" % (t.idx, t.waiting_on) for t in self.threads if t.state == BLOCKED))
            self._abort_all()
        self.done.set()

    def _abort_all(self):
        self.aborting = True
        for t in self.threads:
            if t.state != DONE:
                t.event.set()
        self.done.set()


class SchedLock:
    """drop-in for threading.Lock inside the code under test"""

    def __init__(self, sched, name="lookup._mutex"):
        self.sched = sched
        self.name = name
        self.owner = None
        self.waiters = []
        self.acquisitions = 0

    def acquire(self, blocking=True, timeout=-1):
        s = self.sched
        me = s.me()
        if me is None:
            if self.owner is not None:
                raise RuntimeError("unmanaged thread found %s taken" % self.name)
            self.owner = "unmanaged"
            return True
        s.point("lock.acquire")
        while self.owner is not None:
            self.waiters.append(me)
            s.block(self.name)
        self.owner = me
        self.acquisitions += 1
        return True

    def release(self):
        s = self.sched
        me = s.me()
        if self.owner is None:
            raise RuntimeError("release of an unheld lock")
        self.owner = None
        for w in self.waiters:
            s.wake(w)
        self.waiters = []
        if me is not None:
            s.point("lock.release")

    def locked(self):
        return self.owner is not None

    __enter__ = acquire

    def __exit__(self, *a):
        self.release()


# ------------------------------------------------------------------ line-level points through sys.monitoring
class LineHook:
    """raises Sched.point at every executed line of the given modules' code objects"""

    TOOL = 4  # a free tool id (0 debugger, 1 coverage, 2 profiler, 5 optimizer)

    def __init__(self):
        self.sched = None
        self.codes = set()
        self.installed = False
        self.events = 0

    def install(self, modules):
        mon = sys.monitoring
        if not self.installed:
            mon.use_tool_id(self.TOOL, "verif-c16")
            mon.register_callback(self.TOOL, mon.events.LINE, self._line)
            self.installed = True
        for m in modules:
            for code in self._codes_of(m):
                if code not in self.codes:
                    self.codes.add(code)
                    mon.set_local_events(self.TOOL, code, mon.events.LINE)

    def _codes_of(self, module):
        import types

        seen = set()

        def walk(code):
            if code in seen:
                return
            seen.add(code)
            yield code
            for c in code.co_consts:
                if isinstance(c, types.CodeType):
                    yield from walk(c)

        for v in list(vars(module).values()):
            if isinstance(v, types.FunctionType) and v.__module__ == module.__name__:
                yield from walk(v.__code__)
            elif isinstance(v, type) and v.__module__ == module.__name__:
                for a in list(vars(v).values()):
                    f = getattr(a, "__func__", a)
                    if isinstance(f, types.FunctionType):
                        yield from walk(f.__code__)
                    elif isinstance(a, property):
                        for g in (a.fget, a.fset):
                            if g is not None:
                                yield from walk(g.__code__)
                    elif hasattr(a, "fget") and isinstance(getattr(a, "fget", None), types.FunctionType):
                        yield from walk(a.fget.__code__)

    def _line(self, code, lineno):
        s = self.sched
        if s is not None and s.me() is not None:
            self.events += 1
            s.point(("line", code.co_name, lineno), coarse=False)

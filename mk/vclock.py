"""Virtual clock for lookup / module-file checks (C14, C15, C16).

install() replaces, from outside the repository:
  mako.codegen.time          -> object whose time() is the harness's logical clock (stamped into
                                generated modules as _modified_time)
  mako.util.timeit           -> object whose default_timer() is a strictly increasing counter
                                (LRU recency becomes deterministic)
  mako.template._compile_module_file -> wrapper that gives a freshly written module file the
                                logical mtime (otherwise real-time module mtimes would be compared
                                with logical source mtimes)
Source files get their mtime from the harness with os.utime.
"""
import os
import threading


class Clock:
    BASE = 1_500_000_000  # whole seconds; well in the past, so real 'now' never interferes

    def __init__(self):
        self.now = self.BASE
        self._tick = 0
        self._lock = threading.Lock()

    def time(self):
        return float(self.now)

    def advance(self, n=1):
        self.now += n

    def default_timer(self):
        with self._lock:
            self._tick += 1
            return float(self._tick)


def install(clock):
    import mako.codegen
    import mako.template
    import mako.util

    class _Time:
        @staticmethod
        def time():
            return clock.time()

    class _Timeit:
        @staticmethod
        def default_timer():
            return clock.default_timer()

    mako.codegen.time = _Time
    mako.util.timeit = _Timeit
    orig = getattr(mako.template._compile_module_file, "__wrapped_by_vclock__", mako.template._compile_module_file)

    def _compile_module_file(template, text, filename, outputpath, module_writer):
        r = orig(template, text, filename, outputpath, module_writer)
        if os.path.exists(outputpath):
            os.utime(outputpath, (clock.now, clock.now))
        return r

    _compile_module_file.__wrapped_by_vclock__ = orig
    mako.template._compile_module_file = _compile_module_file
    return clock

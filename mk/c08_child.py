"""Child for C08: renders a batch of templates on the string / file / module-directory paths under the
PYTHONHASHSEED it was started with; prints one JSON object."""
import json
import sys


def main():
    spec = json.load(open(sys.argv[1]))
    sys.path.insert(0, spec["repo"])
    from mako.template import Template

    out = []
    for item in spec["items"]:
        r = {}
        kw = {"input_encoding": item["input_encoding"]} if item.get("input_encoding") else {}
        skw = {"strict_undefined": True} if item.get("strict") else {}
        kw.update(skw)
        for pname, ctor in (
            ("string", lambda: Template(item["text"], **skw)),
            ("file", lambda: Template(filename=item["file"], **kw)),
            ("module-reload", lambda: Template(filename=item["file"], module_directory=item["moddir"], **kw)),
        ):
            try:
                t = ctor()
                r[pname] = {"out": t.render_unicode(**item["ctx"]), "defs": sorted(t.list_defs()), "source": t.source}
            except Exception as e:
                r[pname] = {"exc": "%s: %s" % (type(e).__name__, e)}
        out.append(r)
    print(json.dumps(out))


main()

"""Child process for C15: constructs one Template with a module directory while a file-system fault
injector counts (and optionally breaks) the calls made on behalf of the module file.

usage: c15_child.py <spec.json path>     -> one JSON line on stdout
spec: repo, src, moddir, clock(int), fault: null | {k, mode: raise|die_before|die_after|die_mid, frac},
      render: bool, wait_until: float|null (wall time to start at: multi-process races)
"""
import json
import os
import shutil
import sys
import tempfile
import time


def main():
    spec = json.load(open(sys.argv[1]))
    sys.path.insert(0, spec["repo"])
    sys.path.insert(1, spec["verif"])
    from mk import vclock

    clock = vclock.Clock()
    clock.now = spec["clock"]
    vclock.install(clock)
    from mako.template import Template

    moddir = os.path.abspath(spec["moddir"])
    fault = spec.get("fault")
    calls = []
    fds = set()
    state = {"armed": False}

    def under(p):
        try:
            p = os.path.abspath(os.fspath(p))
        except TypeError:
            return False
        return p == moddir or p.startswith(moddir + os.sep)

    def hit(name, do_partial=None):
        """count the call; -> None (go on) | 'after' (die after the real call)"""
        if not state["armed"]:
            return None
        calls.append(name)
        if fault and len(calls) == fault["k"]:
            mode = fault["mode"]
            if mode == "raise":
                raise OSError(5, "injected I/O error at call %d (%s)" % (fault["k"], name))
            if mode == "die_before":
                os._exit(77)
            if mode == "die_mid" and do_partial is not None:
                do_partial()
                os._exit(78)
            if mode in ("die_after", "die_mid"):
                return "after"
        return None

    def wrap(mod, attr, relevant, label, partial=None):
        orig = getattr(mod, attr)

        def w(*a, **kw):
            if not relevant(a, kw):
                return orig(*a, **kw)
            r = hit(label, (lambda: partial(orig, a, kw)) if partial else None)
            out = orig(*a, **kw)
            if label == "mkstemp":
                fds.add(out[0])
            if label == "close":
                fds.discard(a[0])
            if r == "after":
                os._exit(79)
            return out

        setattr(mod, attr, w)

    path0 = lambda a, kw: bool(a) and isinstance(a[0], (str, bytes, os.PathLike)) and under(a[0])  # noqa: E731
    wrap(os.path, "exists", path0, "exists")
    wrap(os, "stat", path0, "stat")
    wrap(os, "makedirs", path0, "makedirs")
    wrap(tempfile, "mkstemp", lambda a, kw: under(kw.get("dir") or (a[2] if len(a) > 2 else "")), "mkstemp")

    def partial_write(orig, a, kw):
        data = a[1]
        n = int(len(data) * fault.get("frac", 0.5))
        if n:
            orig(a[0], data[:n])

    wrap(os, "write", lambda a, kw: a and a[0] in fds, "write", partial=partial_write)
    wrap(os, "close", lambda a, kw: a and a[0] in fds, "close")
    wrap(shutil, "move", lambda a, kw: len(a) > 1 and under(a[1]), "move")
    wrap(os, "rename", lambda a, kw: len(a) > 1 and under(a[1]), "rename")

    if spec.get("wait_until"):
        while time.time() < spec["wait_until"]:
            pass
    out = {"calls": calls}
    state["armed"] = True
    try:
        t = Template(filename=spec["src"], module_directory=spec["moddir"])
        out["outcome"] = "ok"
    except BaseException as e:
        out["outcome"] = "exc:%s:%s" % (type(e).__name__, e)
        t = None
    state["armed"] = False
    if t is not None and spec.get("render", True):
        try:
            out["render"] = t.render_unicode()
        except BaseException as e:
            out["render_exc"] = "%s:%s" % (type(e).__name__, e)
    print(json.dumps(out))


main()

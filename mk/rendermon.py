"""Render-state monitor (C05, C13): a sys.settrace call/return tracer restricted to frames of generated
template modules (recognised by the `_template_uri` global).  At `call` it snapshots the depth of
the Context's buffer stack and caller stack and the identity of caller_stack.nextcaller; at `return`
(normal, or unwinding) it asserts the same values.  Invariant-at-a-hook, single-threaded, counts the
frames it judged.
"""
import sys


class Monitor:
    def __init__(self, *modules):
        self.frames = 0
        self.problems = []
        self.open = {}
        self._prev = None

    def _ctx(self, frame):
        c = frame.f_locals.get("context")
        if c is not None and hasattr(c, "_buffer_stack") and hasattr(c, "caller_stack"):
            return c
        return None

    def _snap(self, c):
        return (len(c._buffer_stack), len(c.caller_stack), id(c.caller_stack.nextcaller))

    def _local(self, frame, event, arg):
        if event == "return":
            ent = self.open.pop(id(frame), None)
            if ent is not None:
                c, snap = ent
                now = self._snap(c)
                self.frames += 1
                if now != snap:
                    self.problems.append(
                        "%s (%s line %d): (buffer depth, caller depth, nextcaller) at entry %r, at exit %r"
                        % (frame.f_code.co_name, frame.f_globals.get("_template_uri"), frame.f_lineno, snap[:2] + (snap[2] != id(None),), now[:2] + (now[2] != id(None),))
                    )
        return self._local

    def _global(self, frame, event, arg):
        if event != "call" or "_template_uri" not in frame.f_globals:
            return None
        c = self._ctx(frame)
        if c is None:
            return None
        self.open[id(frame)] = (c, self._snap(c))
        return self._local

    def __enter__(self):
        self._prev = sys.gettrace()
        sys.settrace(self._global)
        return self

    def __exit__(self, *a):
        sys.settrace(self._prev)
        return False

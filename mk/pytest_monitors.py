"""pytest plugin (lives in /verif, loaded with `-p mk.pytest_monitors`; /repo stays untouched): runs the
repository's own test-suite with two monitors switched on

  * the lexer cursor monitor (mk/lexmon.py) on every Lexer the suite creates - every parse that returns is
    checked for cursor conservation and node positions;
  * the render-state monitor (mk/rendermon.py) as a session-wide sys.settrace hook - every frame of a
    generated template module is checked for balanced buffer / caller stacks.

Results go to the JSON file named by VERIF_SUITE_REPORT.
"""
import json
import os
import sys

_report = {"parses_returned": 0, "steps": 0, "lexer_problems": [], "frames": 0, "render_problems": [], "tests": 0}
_mon = None


def pytest_configure(config):
    global _mon
    import mako.lexer
    import mako.template
    from mako import parsetree
    from mako.pygen import adjust_whitespace

    from mk import lexmon, rendermon

    Mon = lexmon.make_monitored_lexer(mako.lexer.Lexer)
    orig_parse = Mon.parse

    def parse(self):
        tree = orig_parse(self)
        try:
            probs = lexmon.check_trace(self, parsetree, adjust_whitespace)
            _report["parses_returned"] += 1
            _report["steps"] += len(self.mon_steps)
            for kind, detail in probs:
                if len(_report["lexer_problems"]) < 50:
                    _report["lexer_problems"].append({"kind": kind, "detail": detail[:600], "source": self.text[:300]})
        except Exception as e:  # the monitor must never break the suite
            _report["lexer_problems"].append({"kind": "monitor-error", "detail": repr(e)})
        return tree

    Mon.parse = parse
    Mon.__name__ = "Lexer"
    Mon.__qualname__ = "Lexer"
    mako.lexer.Lexer = Mon
    mako.template.Lexer = Mon
    mako.template.Template.lexer_cls = Mon
    _mon = rendermon.Monitor()
    _mon.__enter__()


def pytest_runtest_logreport(report):
    if report.when == "call":
        _report["tests"] += 1


def pytest_unconfigure(config):
    if _mon is not None:
        _mon.__exit__(None, None, None)
        _report["frames"] = _mon.frames
        _report["render_problems"] = _mon.problems[:50]
    path = os.environ.get("VERIF_SUITE_REPORT")
    if path:
        with open(path, "w") as f:
            json.dump(_report, f)

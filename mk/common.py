"""Shared driver pieces: repo import, case results, sharded worker pool, evidence, verdicts.

Every check module (checks/cNN.py) provides

    PROPERTY   "C01"
    LEVEL      one of the evidence-schema levels
    RULE       text: how cases are generated and what counts as distinct / non-trivial
    ASSUMPTIONS list[str]
    gen_cases(tier, seed) -> iterable of JSON-able case dicts   (deterministic in tier+seed)
    run_case(case) -> CaseResult

and optionally
    setup_worker()            called once per worker process before any case
    finish_worker() -> dict   extra counters gathered by process-wide monitors
    MIN_NONTRIVIAL            floor under which the run is INCONCLUSIVE
    REQUIRED_COUNTERS         monitor counters that must be > 0, else INCONCLUSIVE
    SHARD_TIMEOUT             seconds per worker (watchdog; firing => INCONCLUSIVE)
    EXHAUSTIVE                dict tier -> bool

The driver (run.py) splits the case list over worker subprocesses, gathers results, applies the
known-findings file and prints the verdict lines.
"""
import hashlib
import json
import os
import random
import sys
import time

VERIF = os.path.dirname(os.path.dirname(os.path.abspath(__file__)))
REPO = os.path.abspath(os.environ.get("VERIF_REPO", "/repo"))
PYTHON = os.environ.get("VERIF_PYTHON", "/venv/bin/python")


def use_repo():
    """Put the tree under test first on sys.path and make sure it is the one imported."""
    if sys.path[0] != REPO:
        sys.path.insert(0, REPO)
    import mako

    where = os.path.abspath(mako.__file__)
    assert where.startswith(REPO + os.sep), "mako imported from %s, not %s" % (where, REPO)
    return mako


def fp(*parts):
    h = hashlib.sha1()
    for p in parts:
        h.update(repr(p).encode("utf-8", "backslashreplace"))
        h.update(b"\0")
    return h.hexdigest()[:16]


def rng_for(seed, *salt):
    return random.Random("%s|%s" % (seed, "|".join(str(s) for s in salt)))


class Violation(dict):
    """kind: short mechanism-independent label; detail: what was expected/observed;
    finding: id in known_findings.json if (and only if) a recogniser attributes this
    violation to that exact mechanism."""

    def __init__(self, kind, detail, finding=None, **extra):
        super().__init__(kind=kind, detail=detail, finding=finding, **extra)


class CaseResult:
    __slots__ = ("evaluations", "fingerprints", "violations", "counters", "sample", "bulk_distinct", "stop")

    def __init__(self):
        self.evaluations = 0
        self.fingerprints = []  # fingerprints of distinct non-trivial sub-cases
        self.violations = []
        self.counters = {}
        self.sample = None
        # distinct non-trivial sub-cases counted by the check itself; only for sub-cases that are
        # distinct from every other case by construction (disjoint enumeration ranges)
        self.bulk_distinct = 0
        self.stop = False  # set by a check that saw a blocked thread: the remaining sub-cases would only wait for the watchdog

    def count(self, name, n=1):
        self.counters[name] = self.counters.get(name, 0) + n

    def nontrivial(self, *parts):
        self.fingerprints.append(fp(*parts))

    def violate(self, kind, detail, finding=None, **extra):
        self.violations.append(Violation(kind, detail, finding, **extra))


def short(x, n=300):
    s = x if isinstance(x, str) else repr(x)
    return s if len(s) <= n else s[: n - 20] + "...<%d more>" % (len(s) - n + 20)


def jsonable(x):
    try:
        json.dumps(x)
        return x
    except TypeError:
        if isinstance(x, dict):
            return {str(k): jsonable(v) for k, v in x.items()}
        if isinstance(x, (list, tuple, set, frozenset)):
            return [jsonable(v) for v in x]
        if isinstance(x, bytes):
            return {"__bytes__": x.hex()}
        return repr(x)


class Timer:
    def __enter__(self):
        self.t = time.time()
        return self

    def __exit__(self, *a):
        self.s = time.time() - self.t


def run_suite_with_monitors():
    """Runs the repository's own test-suite, from a scratch copy of REPO, under the monitors of
    mk/pytest_monitors.py.  -> report dict, or None when REPO has no test directory."""
    import shutil
    import subprocess
    import tempfile

    if not os.path.isdir(os.path.join(REPO, "test")):
        return None
    d = tempfile.mkdtemp(prefix="verif-suite-")
    try:
        dst = os.path.join(d, "repo")
        shutil.copytree(REPO, dst, ignore=shutil.ignore_patterns(".git", "__pycache__", "modules"))
        rep = os.path.join(d, "report.json")
        env = dict(os.environ, VERIF_SUITE_REPORT=rep, PYTHONPATH=VERIF, PYTHONDONTWRITEBYTECODE="1")
        p = subprocess.run(
            [PYTHON, "-m", "pytest", "-q", "-p", "no:cacheprovider", "-p", "mk.pytest_monitors", "--timeout=900"],
            cwd=dst, env=env, stdout=subprocess.PIPE, stderr=subprocess.STDOUT, text=True, timeout=1800,
        )
        try:
            with open(rep) as f:
                out = json.load(f)
        except Exception:
            return {"error": p.stdout[-800:]}
        out["pytest_tail"] = p.stdout.strip().splitlines()[-1] if p.stdout.strip() else ""
        return out
    finally:
        shutil.rmtree(d, ignore_errors=True)

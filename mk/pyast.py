"""Grammar-directed generators over CPython's ast: expressions and statement blocks that are valid
Python by construction (built as ast trees, printed with ast.unparse)."""
import ast

NAMES = ["a", "b", "c", "s", "d", "l", "f", "o"]
ATTRS = ["real", "imag", "x", "y"]
BINOPS = [ast.Add, ast.Sub, ast.Mult, ast.Div, ast.FloorDiv, ast.Mod, ast.Pow, ast.LShift, ast.RShift,
          ast.BitOr, ast.BitXor, ast.BitAnd, ast.MatMult]
UNOPS = [ast.UAdd, ast.USub, ast.Not, ast.Invert]
CMPOPS = [ast.Eq, ast.NotEq, ast.Lt, ast.LtE, ast.Gt, ast.GtE, ast.Is, ast.IsNot, ast.In, ast.NotIn]
CONSTS = [0, 1, 2, 7, -3, 1.5, 2j, True, False, None, "", "x", "it's", 'q"q', "a\nb", "\\", "é", b"by", ..., 10**6, "#", "%>", "}"]


def name(r, pool=NAMES):
    return ast.Name(id=r.choice(pool), ctx=ast.Load())


def const(r):
    return ast.Constant(value=r.choice(CONSTS))


def args_node(r, depth, allow_kwonly=True):
    posonly, args, kwonly, kw_defaults, defaults = [], [], [], [], []
    used = []

    def fresh():
        nm = "p%d" % len(used)
        used.append(nm)
        return nm

    for _ in range(r.choice([0, 0, 1])):
        posonly.append(ast.arg(arg=fresh()))
    for _ in range(r.choice([0, 1, 1, 2])):
        args.append(ast.arg(arg=fresh()))
    for _ in range(r.randint(0, len(args))):
        defaults.append(expr(r, depth - 1))
    vararg = ast.arg(arg=fresh()) if r.random() < 0.3 else None
    if allow_kwonly and (vararg or r.random() < 0.3):
        for _ in range(r.choice([0, 1, 2])):
            kwonly.append(ast.arg(arg=fresh()))
            kw_defaults.append(expr(r, depth - 1) if r.random() < 0.5 else None)
    kwarg = ast.arg(arg=fresh()) if r.random() < 0.3 else None
    return ast.arguments(posonlyargs=posonly, args=args, vararg=vararg, kwonlyargs=kwonly,
                         kw_defaults=kw_defaults, kwarg=kwarg, defaults=defaults), used


def comprehension(r, depth, var):
    ifs = [expr(r, depth - 1, extra=[var])] if r.random() < 0.4 else []
    return ast.comprehension(target=ast.Name(id=var, ctx=ast.Store()), iter=expr(r, depth - 1), ifs=ifs, is_async=0)


def expr(r, depth, extra=()):
    pool = NAMES + list(extra)
    if depth <= 0:
        return name(r, pool) if r.random() < 0.5 else const(r)
    k = r.randrange(24)
    sub = lambda: expr(r, depth - 1, extra)  # noqa: E731
    if k == 0:
        return name(r, pool)
    if k == 1:
        return const(r)
    if k == 2:
        return ast.Attribute(value=sub(), attr=r.choice(ATTRS), ctx=ast.Load())
    if k == 3:
        return ast.Subscript(value=sub(), slice=sub(), ctx=ast.Load())
    if k == 4:
        lo, hi, st = [sub() if r.random() < 0.6 else None for _ in range(3)]
        sl = ast.Slice(lower=lo, upper=hi, step=st)
        if r.random() < 0.3:
            sl = ast.Tuple(elts=[sl, sub()], ctx=ast.Load())
        return ast.Subscript(value=sub(), slice=sl, ctx=ast.Load())
    if k == 5:
        pos = [sub() for _ in range(r.randint(0, 2))]
        if r.random() < 0.25:
            pos.append(ast.Starred(value=sub(), ctx=ast.Load()))
        kws = [ast.keyword(arg=r.choice(["k", "v"]), value=sub()) for _ in range(r.randint(0, 1))]
        if r.random() < 0.25:
            kws.append(ast.keyword(arg=None, value=sub()))
        return ast.Call(func=sub(), args=pos, keywords=kws)
    if k == 6:
        return ast.UnaryOp(op=r.choice(UNOPS)(), operand=sub())
    if k in (7, 8, 9):
        op = r.choice(BINOPS)
        if op is ast.Pow:
            # small constant exponents only: towers of powers would not terminate in reasonable time
            return ast.BinOp(left=sub(), op=op(), right=ast.Constant(value=r.choice([0, 1, 2, 3, -1])))
        return ast.BinOp(left=sub(), op=op(), right=sub())
    if k == 10:
        return ast.BoolOp(op=r.choice([ast.And, ast.Or])(), values=[sub() for _ in range(r.randint(2, 3))])
    if k == 11:
        n = r.randint(1, 2)
        return ast.Compare(left=sub(), ops=[r.choice(CMPOPS)() for _ in range(n)], comparators=[sub() for _ in range(n)])
    if k == 12:
        return ast.IfExp(test=sub(), body=sub(), orelse=sub())
    if k == 13:
        a, used = args_node(r, depth)
        return ast.Lambda(args=a, body=expr(r, depth - 1, list(extra) + used))
    if k == 14:
        return ast.Tuple(elts=[sub() for _ in range(r.randint(0, 3))], ctx=ast.Load())
    if k == 15:
        return ast.List(elts=[sub() for _ in range(r.randint(0, 3))], ctx=ast.Load())
    if k == 16:
        return ast.Set(elts=[sub() for _ in range(r.randint(1, 3))])
    if k == 17:
        n = r.randint(0, 2)
        keys = [sub() for _ in range(n)]
        vals = [sub() for _ in range(n)]
        if r.random() < 0.25:
            keys.append(None)
            vals.append(sub())
        return ast.Dict(keys=keys, values=vals)
    if k in (18, 19, 20, 21):
        var = "q%d" % depth
        gens = [comprehension(r, depth, var)]
        elt = expr(r, depth - 1, list(extra) + [var])
        if k == 18:
            return ast.ListComp(elt=elt, generators=gens)
        if k == 19:
            return ast.SetComp(elt=elt, generators=gens)
        if k == 20:
            return ast.GeneratorExp(elt=elt, generators=gens)
        return ast.DictComp(key=elt, value=expr(r, depth - 1, list(extra) + [var]), generators=gens)
    if k == 22:
        parts = []
        for _ in range(r.randint(1, 3)):
            if r.random() < 0.5:
                parts.append(ast.Constant(value=r.choice(["t", " ", "{{", "'"])))
            else:
                parts.append(ast.FormattedValue(value=sub(), conversion=r.choice([-1, -1, 114, 115]), format_spec=None))
        return ast.JoinedStr(values=parts)
    return ast.NamedExpr(target=ast.Name(id="w", ctx=ast.Store()), value=sub())


def expr_source(r, depth):
    tree = ast.fix_missing_locations(ast.Expression(body=expr(r, depth)))
    try:
        src = ast.unparse(tree)
        ast.parse(src, mode="eval")
        compile(src, "<gen>", "eval")
    except (SyntaxError, ValueError, RecursionError):
        return None
    return src


HAND_EXPRS = [
    "2**3", "a @ b", "(a if b else c) + 1", "(lambda: 1)()", "(lambda x: x)(2)", "f(**d)", "f(*l)", "f(*l, **d)",
    "{**d}", "{**d, 'k': 1}", "f'{a}'", "f'{a!r:>4}'", "l[1:2, 3]", "l[::2]", "l[1:]", "l[:-1]", "(w := 3)",
    "lambda *, k=1: k", "lambda *args, **kw: (args, kw)", "lambda x, /, y: x", "(1).real", "1 .real", "-a ** 2", "(-a) ** 2",
    "not a == b", "(not a) == b", "a < b < c", "(a < b) < c", "a if b else (c if a else b)", "(a, b)", "a,", "()", "[*l, 1]",
    "{*l}", "x if x else y for x in l" if False else "[x if x else 1 for x in l]", "[x for x in l if x if x > 1]",
    "[(x, y) for x in l for y in l]", "{k: v for k, v in d.items()}", "'a' 'b'", "b'x'", "1_000", "0x10", "1e3", "...",
    "a and b or c", "a and (b or c)", "(a or b) and c", "a | b & c", "(a | b) & c", "a - (b - c)", "a - b - c",
    "a / (b * c)", "a ** b ** c", "(a ** b) ** c", "~a", "- -a", "+a", "a[b][c]", "a.b.c" if False else "o.x.real",
    "f(a)(b)" if False else "f(a)", "s % (a, b)", "'%s' % a", "(yield)" if False else "a", "[lambda: x for x in l]",
    "(lambda x=(1, 2): x)()", "dict(a=1, **d)", "f(a, *l, k=1)", "l[a:b:c]", "l[(1, 2)]", "l[1, 2]", "{1: {2: 3}}",
    "[[1, 2], [3]]", "((1, 2), 3)", "a if (b if c else a) else c", "(a, b) if c else (b, a)", "not (a and b)",
    "a is not None", "a not in l", "s.join(l)", "''.join(str(x) for x in l)", "sum(x * x for x in l)",
    "'\\n'", "'\\\\'", "\"it's\"", "'''tri'''", "r'\\d'", "'}'", "'|'", "'%>'", "'#'",
]

"""C15 - module files are regenerated when stale and never observed half-written.

hist   in-process histories of {modify source newer/equal/older, delete module, foreign magic number,
       construct (with/without module_writer)} judged by a staleness model (rewrite due iff missing /
       older than source / other magic number; otherwise bytes and inode unchanged).
crash  fault enumeration: for each scenario the fault-free pass counts the file-system calls made for
       the module file; then every k-th call x {raise, die before, die after, die mid-write 50%/99%} is
       injected in a child process; afterwards the module path must hold nothing, the complete old
       or the complete new module, and a fresh process must load and render the current source.
race   2-8 processes construct the same Template at the same instant.
"""
import itertools
import json
import os
import shutil
import subprocess
import sys
import tempfile
import time

from mk import common, vclock

PROPERTY = "C15"
LEVEL = "fault_enumeration"
EXHAUSTIVE = {"quick": True, "thorough": True}
RULE = (
    "hist: all histories of length <=4 (quick) / <=5 (thorough) over {src-newer, src-equal, src-older, "
    "delete-module, foreign-magic, construct, construct-with-module_writer} plus random ones of length <=12; "
    "crash: scenarios {first generation, stale module, foreign magic number} x body size {small, 50 kB} x "
    "EVERY file-system call made for the module file (count re-measured on each run from a fault-free "
    "pass) x {raise OSError, die before, die after, die mid-write at 50% and 99%}; race: 2-8 processes x "
    "{first generation, stale}. distinct = by (scenario, size, k, mode) / history; non-trivial = the fault "
    "actually fired (child died or raised) / the history contained both a due and a not-due construction."
)
RULE += " added since: histories run through four construction routes: Template(module_directory), Template(module_filename), TemplateLookup(module_directory), TemplateLookup(modulename_callable) without a module directory. a module file as an old code generator wrote it (magic number 5, module-level cache.Cache with the signature of that time). half of the histories render through a cached def with a backend honouring the template's start time. thread race: 4 / 8 threads constructing Templates at once for one or distinct sources. a Template constructed although its module write raised must render the current source."
ASSUMPTIONS = [
    "'die' is process death with the kernel intact (os._exit); power-loss ordering cannot be observed from user space",
    "the injector counts exists/stat/makedirs/mkstemp/write/close/move/rename calls that concern the module directory",
    "virtual clock shims as in C14; children run with PYTHONHASHSEED=0 so that the reference module bytes are reproducible",
]
MIN_NONTRIVIAL = 60
REQUIRED_COUNTERS = ["constructs_due", "constructs_not_due", "module_writer_calls_checked", "crash_points_fired", "recoveries_checked", "race_processes_ok", "midwrite_crashes"]
REQUIRED_COUNTERS += ["thread_race_constructions"]
RULE += "; in every other history the source grows with each version and ends in a line that makes the compiler warn"
REQUIRED_COUNTERS += ["constructs_of_warning_templates", "failing_writer_propagated"]
RULE += "; operation construct-failing-writer (a module_writer raising an exception of the Warning family)"
RULE += "; the templates of the thread race hold control structures (if/else, for, try/except) and every racing render is compared with the solo render of its source"
SHARDS = {"quick": 32, "thorough": 64}

_st = {}
CHILD = os.path.join(common.VERIF, "mk", "c15_child.py")
CLOCK0 = vclock.Clock.BASE + 1000


def setup_worker():
    import mako.template
    from mako import codegen

    clock = vclock.install(vclock.Clock())
    _st.update(clock=clock, Template=mako.template.Template, MAGIC=codegen.MAGIC_NUMBER)
    from mako import cache as mcache

    class C15Rec(mcache.CacheImpl):
        """keeps values with the (virtual) time they were stored at; like the stock backends it treats a value stored
        before the template's own start time (the generation time of its module) as absent"""
        store = {}

        def get_or_create(self, key, creation_function, **kw):
            k = (self.cache.id, key)
            e = self.store.get(k)
            if e is None or e[1] < self.cache.starttime:
                e = (creation_function(), clock.now)
                self.store[k] = e
            return e[0]

        def set(self, key, value, **kw):
            self.store[(self.cache.id, key)] = (value, clock.now)

        def get(self, key, **kw):
            e = self.store.get((self.cache.id, key))
            return None if e is None else e[0]

        def invalidate(self, key, **kw):
            self.store.pop((self.cache.id, key), None)

    _st["C15Rec"] = C15Rec
    globals()["C15RecHolder"] = C15Rec
    try:
        mcache.register_plugin("c15rec", __name__, "C15RecHolder")
    except Exception:
        pass


def modpath(md, src):
    return os.path.abspath(os.path.join(md, os.path.normpath(src).lstrip("/") + ".py"))


def body_for(version, big=False, cached=False, warn=False):
    s = "SRC#%d" % version
    if cached:
        # the text comes out of a cached def: after a rewrite of the module it must be the NEW text all the same
        s = '<%%def name="c_()" cached="True">SRC#%d</%%def>${c_()}' % version
    if big:
        s += "\n" + "\n".join("line %d of filler ${%d}" % (i, i) for i in range(1500))
    if warn:
        # every version is longer than the one before, and its last line makes the compiler warn (invalid escape): the
        # warning is shown while the module generated from THIS text is loaded, whatever module file was there before
        s += "\n" + "\n".join("grown line %d ${%d}" % (i, i) for i in range(version * 5)) + "\n${len('\\d')}"
    return s


def shown_version(out):
    try:
        return int(out.split("\n", 1)[0].split("#")[1])
    except Exception:
        return None


# ------------------------------------------------------------------ hist
VIAS = ["template-moddir", "template-modfile", "lookup-moddir", "lookup-callable"]


def run_hist(ops, res, rc, via="template-moddir", cached=None):
    """via: how the Template comes to life - constructed directly (module_directory / module_filename) or by a fresh
    TemplateLookup (module_directory / modulename_callable WITHOUT a module directory); the rules are the same"""
    base = tempfile.mkdtemp(prefix="c15h-")
    clock = _st["clock"]
    T = _st["Template"]
    if cached is None:
        cached = rc.get("cached", (len(ops) + sum(map(len, ops))) % 2 == 0)
    warn = rc.get("warn", len(ops) % 2 == 0)
    rc = dict(rc, via=via, cached=cached, warn=warn)
    ckw = {"cache_impl": "c15rec"} if cached else {}
    _st["C15Rec"].store.clear()
    try:
        src = os.path.join(base, "t.html")
        md = os.path.join(base, "mods")
        mp = modpath(md, src)
        if via == "template-modfile":
            mp = os.path.join(base, "mf", "custom_t.py")
            os.makedirs(os.path.dirname(mp))
        elif via == "lookup-moddir":
            mp = os.path.join(md, "t.html.py")
        elif via == "lookup-callable":
            mp = os.path.join(base, "cb", "named_by_callable.py")
            os.makedirs(os.path.dirname(mp))

        def construct(writer):
            if via == "template-moddir":
                return T(filename=src, module_directory=md, module_writer=writer, **ckw)
            if via == "template-modfile":
                return T(filename=src, module_filename=mp, module_writer=writer, **ckw)
            from mako.lookup import TemplateLookup
            if via == "lookup-moddir":
                lk = TemplateLookup(directories=[base], module_directory=md, module_writer=writer, **ckw)
            else:
                lk = TemplateLookup(directories=[base], modulename_callable=lambda filename, uri: mp, module_writer=writer, **ckw)
            return lk.get_template("/t.html")
        ver = 1
        clock.now = CLOCK0
        with open(src, "w") as f:
            f.write(body_for(ver, cached=cached, warn=warn))
        os.utime(src, (clock.now, clock.now))
        S = {"version": ver, "mtime": clock.now}
        M = None  # dict(frm, mtime, magic_ok)
        seen = set()
        for op in ops:
            clock.advance(2)
            res.evaluations += 1
            if op.startswith("src-"):
                ver += 1
                ref = M["mtime"] if M else clock.now
                mt = {"src-newer": ref + 1, "src-equal": ref, "src-older": ref - 1}[op]
                with open(src, "w") as f:
                    f.write(body_for(ver, cached=cached, warn=warn))
                os.utime(src, (mt, mt))
                S = {"version": ver, "mtime": mt}
            elif op == "delete-module":
                if M:
                    os.remove(mp)
                    M = None
            elif op in ("foreign-magic", "foreign-legacy"):
                if M and M["magic_ok"]:
                    data = open(mp, "rb").read()
                    data2 = data.replace(b"_magic_number = %d" % _st["MAGIC"], b"_magic_number = %d" % (_st["MAGIC"] - 1))
                    if op == "foreign-legacy":
                        # what a much older code generator wrote: magic number 5 and a module-level Cache built with
                        # the signature of that time
                        data2 = data.replace(b"_magic_number = %d" % _st["MAGIC"], b"_magic_number = 5")
                        data2 = data2.replace(b"_enable_loop = ", b"_template_cache=cache.Cache(__name__, _modified_time)\n_enable_loop = ", 1)
                    if data2 == data:
                        res.violate("harness", "magic number line not found in module", replay_case=rc)
                    with open(mp, "wb") as f:
                        f.write(data2)
                    os.utime(mp, (M["mtime"], M["mtime"]))
                    M["magic_ok"] = False
            elif op == "construct-failing-writer":
                # a module_writer that fails with an exception of the Warning family: when a rewrite is due the failure
                # is the caller's to see - or, if a Template comes to life all the same, it renders the CURRENT source
                due = M is None or M["mtime"] < S["mtime"] or not M["magic_ok"]

                def bad_writer(source, dest):
                    raise UserWarning("this writer declines")

                try:
                    out = construct(bad_writer).render_unicode()
                except UserWarning:
                    res.count("failing_writer_propagated")
                    if not due:
                        res.violate("module-writer-calls", "[" + via + "] history %r: no rewrite was due but module_writer was called" % (ops,), replay_case=rc)
                    if os.path.exists(mp) and M is None:
                        M = None
                    continue
                except Exception as e:
                    res.violate("construct-raises", "[" + via + "] history %r: construct with a failing module_writer raised %s: %s" % (ops, type(e).__name__, e), replay_case=rc)
                    return
                sv = shown_version(out)
                want = S["version"] if due else M["frm"]
                if sv != want:
                    res.violate("stale-after-failed-rewrite", "[" + via + "] history %r: module_writer failed (%s), the Template was constructed all the same and renders version %r, expected %d" % (
                        ops, "rewrite due: " + why(M, S) if due else "no rewrite due", sv, want), replay_case=rc)
                if due:
                    return   # (what is on disk now is not modelled further)
            elif op.startswith("construct"):
                use_writer = op == "construct-writer"
                calls = []

                def writer(source, dest):
                    calls.append((type(source).__name__, dest))
                    with open(dest, "wb") as f:
                        f.write(source)

                due = M is None or M["mtime"] < S["mtime"] or not M["magic_ok"]
                before = None
                if os.path.exists(mp):
                    st = os.stat(mp)
                    before = (st.st_ino, open(mp, "rb").read())
                try:
                    import warnings as _w

                    with _w.catch_warnings(record=True):
                        _w.simplefilter("always")
                        t = construct(writer if use_writer else None)
                    out = t.render_unicode()
                    if warn:
                        res.count("constructs_of_warning_templates")
                except Exception as e:
                    res.violate("construct-raises", "[" + via + "] history %r: construct raised %s: %s" % (ops, type(e).__name__, e), replay_case=rc)
                    return
                sv = shown_version(out)
                if due:
                    res.count("constructs_due")
                    seen.add("due")
                    if not os.path.exists(mp):
                        res.violate("module-not-written", "history %r: a rewrite was due but no module file exists" % (ops,), replay_case=rc)
                        return
                    now = open(mp, "rb").read()
                    if before is not None and now == before[1]:
                        res.violate("module-not-rewritten", "history %r: module was stale (%s) but its bytes are unchanged" % (ops, why(M, S)), replay_case=rc)
                    if sv != S["version"]:
                        res.violate("stale-after-rewrite", "history %r: rewrite was due (%s) but the Template renders version %r, current is %d" % (ops, why(M, S), sv, S["version"]), replay_case=rc)
                    M = {"frm": S["version"], "mtime": clock.now, "magic_ok": True}
                    if use_writer:
                        res.count("module_writer_calls_checked")
                        if len(calls) != 1 or calls[0] != ("bytes", mp):
                            res.violate("module-writer-calls", "[" + via + "] history %r: rewrite due, module_writer calls = %r (expected one call with bytes and %r)" % (ops, calls, mp), replay_case=rc)
                else:
                    res.count("constructs_not_due")
                    seen.add("notdue")
                    st = os.stat(mp)
                    if (st.st_ino, open(mp, "rb").read()) != before:
                        res.violate("module-rewritten-needlessly", "history %r: module was current (generated from v%d at %d, source mtime %d) but was rewritten" % (ops, M["frm"], M["mtime"], S["mtime"]), replay_case=rc)
                    if sv != M["frm"]:
                        res.violate("wrong-version-from-module", "history %r: module generated from v%d, Template renders %r" % (ops, M["frm"], sv), replay_case=rc)
                    if use_writer:
                        res.count("module_writer_calls_checked")
                        if calls:
                            res.violate("module-writer-calls", "history %r: no rewrite due but module_writer was called %r" % (ops, calls), replay_case=rc)
        if seen == {"due", "notdue"}:
            res.nontrivial("hist", ops)
    finally:
        shutil.rmtree(base, ignore_errors=True)


def why(M, S):
    if M is None:
        return "module missing"
    if not M["magic_ok"]:
        return "foreign magic number"
    return "module mtime %d < source mtime %d" % (M["mtime"], S["mtime"])


# ------------------------------------------------------------------ children
def run_child(spec, timeout=120, pyc=False):
    fd, sp = tempfile.mkstemp(prefix="c15spec-", suffix=".json")
    with os.fdopen(fd, "w") as f:
        json.dump(spec, f)
    env = dict(os.environ)
    env["PYTHONHASHSEED"] = "0"
    if pyc:
        env.pop("PYTHONDONTWRITEBYTECODE", None)
    else:
        env["PYTHONDONTWRITEBYTECODE"] = "1"
    try:
        p = subprocess.run([sys.executable, CHILD, sp], stdout=subprocess.PIPE, stderr=subprocess.PIPE, text=True, timeout=timeout, env=env)
    finally:
        os.remove(sp)
    out = None
    for ln in p.stdout.splitlines():
        try:
            out = json.loads(ln)
        except ValueError:
            pass
    return p.returncode, out, p.stderr[-800:]


def spec_for(W, clock, fault=None, wait_until=None):
    return {"repo": common.REPO, "verif": common.VERIF, "src": os.path.join(W, "t.html"), "moddir": os.path.join(W, "mods"),
            "clock": clock, "fault": fault, "render": True, "wait_until": wait_until}


def build_pristine(P, W, scenario, big, pyc):
    """build the pre-state in W (children embed W's path), snapshot it to P; -> (old bytes|None, current version, clock for the run)"""
    shutil.rmtree(W, ignore_errors=True)
    os.makedirs(W)
    src = os.path.join(W, "t.html")
    clock = CLOCK0
    with open(src, "w") as f:
        f.write(body_for(1, big))
    os.utime(src, (clock, clock))
    old = None
    ver = 1
    if scenario in ("stale", "magic"):
        rc, out, err = run_child(spec_for(W, clock), pyc=pyc)
        assert rc == 0 and out and out.get("render", "").startswith("SRC#1"), (rc, out, err)
        mp = modpath(os.path.join(W, "mods"), src)
        if scenario == "stale":
            ver = 2
            with open(src, "w") as f:
                f.write(body_for(2, big))
            os.utime(src, (clock + 5, clock + 5))
        else:
            import re

            data = open(mp, "rb").read()
            data2 = re.sub(rb"_magic_number = (\d+)", lambda m: b"_magic_number = %d" % (int(m.group(1)) - 1), data)
            assert data2 != data
            with open(mp, "wb") as f:
                f.write(data2)
            os.utime(mp, (clock, clock))
        old = open(mp, "rb").read()
        clock += 10
    shutil.rmtree(P, ignore_errors=True)
    shutil.copytree(W, P, symlinks=True)
    return old, ver, clock


def restore(P, W):
    shutil.rmtree(W, ignore_errors=True)
    shutil.copytree(P, W, symlinks=True)


def run_crash(case, res):
    scenario, big, pyc = case["scenario"], case["big"], case.get("pyc", False)
    base = tempfile.mkdtemp(prefix="c15c-")
    P, W = os.path.join(base, "pristine"), os.path.join(base, "work")
    try:
        old, ver, clock = build_pristine(P, W, scenario, big, pyc)
        mp = modpath(os.path.join(W, "mods"), os.path.join(W, "t.html"))
        # fault-free pass: counts the calls, yields the reference new module
        rc, out, err = run_child(spec_for(W, clock), pyc=pyc)
        res.evaluations += 1
        if rc != 0 or not out or out.get("outcome") != "ok" or shown_version(out.get("render", "")) != ver:
            res.violate("fault-free-run-failed", "scenario %s: rc=%s out=%r err=%s" % (scenario, rc, out, err))
            return
        names = out["calls"]
        new = open(mp, "rb").read()
        res.count("fs_calls_per_rewrite", len(names))
        if "mkstemp" not in names or "write" not in names:
            res.violate("harness", "injector saw calls %r: no mkstemp/write" % names)
        plan = []
        for k, nm in enumerate(names, 1):
            for mode in ("raise", "die_before", "die_after"):
                plan.append((k, nm, mode, None))
            if nm == "write":
                plan.append((k, nm, "die_mid", 0.5))
                plan.append((k, nm, "die_mid", 0.99))
        only = case.get("only")
        part, parts = case.get("part", 0), case.get("parts", 1)
        for pi, (k, nm, mode, frac) in enumerate(plan):
            if only and [k, mode, frac] != only:
                continue
            if pi % parts != part:
                continue
            restore(P, W)
            fault = {"k": k, "mode": mode, "frac": frac}
            rcase = dict(case, only=[k, mode, frac])
            rc, out, err = run_child(spec_for(W, clock, fault), pyc=pyc)
            res.evaluations += 1
            what = "scenario=%s size=%s fault=%s at call %d (%s) of %r" % (scenario, "big" if big else "small", mode if frac is None else "%s@%.2f" % (mode, frac), k, nm, names)
            fired = rc in (77, 78, 79) or (out and str(out.get("outcome", "")).startswith("exc:"))
            if fired:
                res.count("crash_points_fired")
                res.nontrivial("crash", scenario, big, k, mode, frac)
                if mode == "die_mid":
                    res.count("midwrite_crashes")
            elif rc != 0:
                res.violate("child-failed", "%s: rc=%s err=%s" % (what, rc, err), replay_case=rcase)
                continue
            # 0. a Template that did come to life although the write it attempted failed renders the CURRENT source
            if mode == "raise" and out and out.get("outcome") == "ok":
                res.count("constructed_despite_write_error")
                if "render" in out and shown_version(out.get("render", "")) != ver:
                    res.violate("stale-after-failed-rewrite", "%s: the I/O error was not passed on, the Template was constructed and renders %r; the current version is %d"
                                % (what, out.get("render", "")[:40], ver), witness=what, replay_case=rcase)
            # 1. state of the module path
            if os.path.exists(mp):
                data = open(mp, "rb").read()
                if data != new and data != old:
                    res.violate(
                        "partial-module-at-module-path",
                        "%s: module path holds %d bytes that are neither the previous (%s) nor the new (%d) complete module"
                        % (what, len(data), len(old) if old else None, len(new)), witness=what, replay_case=rcase,
                    )
            leftovers = [f for f in os.listdir(os.path.dirname(mp))] if os.path.isdir(os.path.dirname(mp)) else []
            res.count("leftover_tmp_files", sum(1 for f in leftovers if f.startswith("tmp")))
            # 2. a later process must load and render the current source
            rc2, out2, err2 = run_child(spec_for(W, clock + 1), pyc=pyc)
            res.evaluations += 1
            res.count("recoveries_checked")
            if rc2 != 0 or not out2 or out2.get("outcome") != "ok":
                res.violate("recovery-fails", "%s: a later process could not construct the Template: rc=%s out=%r err=%s" % (what, rc2, out2, err2), witness=what, replay_case=rcase)
            elif shown_version(out2.get("render", "")) != ver:
                res.violate("recovery-stale", "%s: a later process renders %r, current version is %d" % (what, out2.get("render", "")[:40], ver), witness=what, replay_case=rcase)
            # 3. and so must this process
            try:
                o3 = _st["Template"](filename=os.path.join(W, "t.html"), module_directory=os.path.join(W, "mods")).render_unicode()
                if shown_version(o3) != ver:
                    res.violate("recovery-stale", "%s: in-process Template renders %r" % (what, o3[:40]), replay_case=rcase)
            except Exception as e:
                res.violate("recovery-fails", "%s: in-process Template raised %s: %s" % (what, type(e).__name__, e), replay_case=rcase)
        res.sample = {"kind": "crash", "scenario": scenario, "big": big, "calls_for_one_rewrite": names, "crash_points": len(plan)}
    finally:
        shutil.rmtree(base, ignore_errors=True)


def race_text(i):
    """400 lines of text and expressions, some of them inside control structures (whose branches write the same line)"""
    lines = ["SRC#%d" % (100 + i)]
    for k in range(400):
        ln = "line %d of template %d ${%d}" % (k, i, k)
        if k % 7 == 0 and k < 399:
            lines += ["%% if %d %% 2 == 0:" % k, ln, "% else:", ln, "% endif"]
        elif k % 11 == 0 and k < 399:
            lines += ["% for q_ in (1,):", "% try:", ln, "% except ValueError:", "never", "% endtry", "% endfor"]
        else:
            lines.append(ln)
    return "\n".join(lines)


def run_thread_race(case, res):
    """several THREADS of this process construct Templates at once - for the same source and module path, and for
    different sources in one module directory - with a tiny switch interval; every one renders its own source and
    every module file left behind loads and renders correctly afterwards"""
    import sys as _sys
    import threading

    T = _st["Template"]
    n = case["n"]
    base = tempfile.mkdtemp(prefix="c15t-")
    old = _sys.getswitchinterval()
    try:
        md = os.path.join(base, "mods")
        srcs = []
        for i in range(n if case["distinct"] else 1):
            sp = os.path.join(base, "t%d.html" % i)
            with open(sp, "w") as f:
                f.write(race_text(i))
            srcs.append(sp)
        # what each source renders when nothing else is going on (compiled from the text, in this thread alone)
        solo = [T(race_text(i)).render_unicode() for i in range(len(srcs))]
        outs = {}
        start = threading.Barrier(n)

        def work(i):
            sp = srcs[i % len(srcs)]
            try:
                start.wait(20)
                outs[i] = ("out", T(filename=sp, module_directory=md).render_unicode())
            except Exception as e:
                outs[i] = ("exc", "%s: %s" % (type(e).__name__, e))

        _sys.setswitchinterval(1e-6)
        ths = [threading.Thread(target=work, args=(i,), daemon=True) for i in range(n)]
        for t in ths:
            t.start()
        for t in ths:
            t.join(120)
        _sys.setswitchinterval(old)
        res.evaluations += 1
        res.count("thread_race_constructions", n)
        for i in range(n):
            want = 100 + (i % len(srcs))
            o = outs.get(i, ("exc", "no result"))
            if o[0] != "out" or shown_version(o[1]) != want or not o[1].endswith("399") or o[1] != solo[i % len(srcs)]:
                res.violate("thread-race-render", "%d threads constructing Templates at once (%s sources): thread %d got %r, expected the text of SRC#%d" % (
                    n, "distinct" if case["distinct"] else "one", i, (o[1][:80] if o[0] == "out" else o), want))
        # afterwards, from the files left on disk
        for i, sp in enumerate(srcs):
            try:
                o = T(filename=sp, module_directory=md).render_unicode()
                if shown_version(o) != 100 + i or not o.endswith("399") or o != solo[i]:
                    res.violate("thread-race-module-file", "after the race the module file of %s renders %r" % (os.path.basename(sp), o[:80]))
            except Exception as e:
                res.violate("thread-race-module-file", "after the race the module file of %s cannot be used: %s: %s" % (os.path.basename(sp), type(e).__name__, e))
        res.nontrivial("thread-race", n, case["distinct"], case.get("rep"))
    finally:
        _sys.setswitchinterval(old)
        shutil.rmtree(base, ignore_errors=True)


def run_race(case, res):
    n, scenario, pyc = case["n"], case["scenario"], case.get("pyc", False)
    base = tempfile.mkdtemp(prefix="c15r-")
    P, W = os.path.join(base, "pristine"), os.path.join(base, "work")
    try:
        old, ver, clock = build_pristine(P, W, scenario, case.get("big", False), pyc)
        mp = modpath(os.path.join(W, "mods"), os.path.join(W, "t.html"))
        start = time.time() + 0.6
        specs = []
        procs = []
        env = dict(os.environ)
        env["PYTHONHASHSEED"] = "0"
        if pyc:
            env.pop("PYTHONDONTWRITEBYTECODE", None)
        for i in range(n):
            fd, sp = tempfile.mkstemp(prefix="c15spec-", suffix=".json", dir=base)
            with os.fdopen(fd, "w") as f:
                json.dump(spec_for(W, clock, None, start), f)
            specs.append(sp)
            procs.append(subprocess.Popen([sys.executable, CHILD, sp], stdout=subprocess.PIPE, stderr=subprocess.PIPE, text=True, env=env))
        what = "%d processes constructing the same Template at once (%s)" % (n, scenario)
        for p in procs:
            try:
                so, se = p.communicate(timeout=120)
            except subprocess.TimeoutExpired:
                p.kill()
                res.violate("race-timeout", what + ": a process did not finish")
                continue
            res.evaluations += 1
            out = None
            for ln in so.splitlines():
                try:
                    out = json.loads(ln)
                except ValueError:
                    pass
            if p.returncode != 0 or not out or out.get("outcome") != "ok" or shown_version(out.get("render", "")) != ver:
                res.violate("race-process-failed", "%s: rc=%s out=%r err=%s" % (what, p.returncode, out, se[-500:]), witness=what)
            else:
                res.count("race_processes_ok")
        rc, out, err = run_child(spec_for(W, clock + 1), pyc=pyc)
        if rc != 0 or not out or shown_version(out.get("render", "")) != ver:
            res.violate("race-final-module-bad", "%s: afterwards a fresh process gives rc=%s out=%r" % (what, rc, out))
        res.nontrivial("race", n, scenario, case.get("rep"))
        res.sample = {"kind": "race", "n": n, "scenario": scenario}
    finally:
        shutil.rmtree(base, ignore_errors=True)


# ------------------------------------------------------------------ plumbing
OPS = ["src-newer", "src-equal", "src-older", "delete-module", "foreign-magic", "foreign-legacy", "construct", "construct-writer", "construct-failing-writer"]


def gen_cases(tier, seed):
    pyc = tier == "thorough"
    for scenario in ("first", "stale", "magic"):
        for big in (False, True):
            for part in range(4):
                yield {"kind": "crash", "scenario": scenario, "big": big, "pyc": False, "part": part, "parts": 4}
                if pyc:
                    yield {"kind": "crash", "scenario": scenario, "big": big, "pyc": True, "part": part, "parts": 4}
    reps = 2 if tier == "quick" else 30
    for rep in range(reps):
        for n in (2, 3, 5, 8):
            for scenario in ("first", "stale"):
                yield {"kind": "race", "n": n, "scenario": scenario, "rep": rep, "pyc": pyc and rep % 2 == 1}
    for rep in range(2 if tier == "quick" else 20):
        for n in (4, 8):
            for distinct in (False, True):
                yield {"kind": "thread-race", "n": n, "distinct": distinct, "rep": rep}
    kmax = 4 if tier == "quick" else 5
    batch = []
    for k in range(1, kmax + 1):
        for ops in itertools.product(OPS, repeat=k):
            if not any(o.startswith("construct") for o in ops):
                continue
            batch.append(list(ops))
            if len(batch) >= 150:
                yield {"kind": "hist", "histories": batch}
                batch = []
    if batch:
        yield {"kind": "hist", "histories": batch}
    n = 400 if tier == "quick" else 6000
    for i in range(n // 50):
        yield {"kind": "randhist", "seed": seed, "index": i, "n": 50}


def run_case(case):
    res = common.CaseResult()
    k = case["kind"]
    if k == "hist":
        for n_, ops in enumerate(case["histories"]):
            run_hist(ops, res, {"kind": "hist", "histories": [ops]}, via=case.get("via") or VIAS[(n_ + len(ops)) % len(VIAS)])
        res.sample = {"kind": "hist", "history": case["histories"][-1]}
    elif k == "randhist":
        r = common.rng_for(case["seed"], "c15", case["index"])
        for _ in range(case["n"]):
            ops = [r.choice(OPS + ["construct", "construct"]) for _ in range(r.randint(5, 12))]
            run_hist(ops, res, {"kind": "hist", "histories": [ops]}, via=r.choice(VIAS))
    elif k == "crash":
        run_crash(case, res)
    elif k == "thread-race":
        run_thread_race(case, res)
    elif k == "race":
        run_race(case, res)
    return res

"""C05 - defs write at the call site; buffering, capture and calls with content.

Generated TDoc documents (mk/tdoc.py) are rendered by Mako and by the reference interpreter, which
implements the statement: argument binding by inspect.signature, plain/buffered/filtered/decorated
defs, capture, calls with content (<%self:d ...> and <%call>) with body arguments, nested defs
reachable through `caller`, and restoration of `caller`.  A sys.settrace render-state monitor
additionally checks, on every frame of a generated template module, that buffer-stack and
caller-stack depths at exit equal those at entry.
"""
from mk import common, tdoc, rendermon

PROPERTY = "C05"
LEVEL = "exploration"
RULE = (
    "documents: 1-4 top-level defs in a DAG with random signatures (positional, default, *args, keyword-only, "
    "**kwargs), flags (buffered, filter, decorator), nested defs, bodies made of text, variables, def calls "
    "(by name, via self, inside string concatenation, via capture, as argument of another call), calls with "
    "content in both tag styles nested to depth 4 with body arguments and nested defs, caller.body() invoked "
    "0-3 times, inside % if / % for; rendered with buffer_filters on/off. distinct = by template text; "
    "non-trivial = the model recorded a call with content plus at least one of buffered/filtered/capture/concat."
)
RULE += " added since: depth-4 documents in the quick tier, second keyword-only parameter, out-of-order keyword arguments collected by **kw, try/finally nodes, literal+value mixtures joined by Python +, call bodies with keyword-only and ** body arguments. nested defs whose default reads a context variable mentioned nowhere else. a decorator whose wrapper adds a keyword argument; fixed scenarios on who sees `caller` (callee, defs called from it, from the call body, inside the call's argument list). nested defs named like a later top-level def. a third of the documents also rendered through render() with output_encoding."
ASSUMPTIONS = [
    "reference interpreter mk/tdoc.py (rules listed in DESIGN.md appendix A)",
    "capture() of a buffered def and decorators on buffered defs are not generated (not covered by the statement)",
]
MIN_NONTRIVIAL = 300
REQUIRED_COUNTERS = ["renders_compared", "frames_checked", "ccall_docs", "caller_body_docs", "argument_errors_matched"]
REQUIRED_COUNTERS += ["renders_with_output_encoding"]
RULE += "; directed scenarios for the defs written inside a call (argument defaults from the context / the enclosing argument / a page assignment / the module block; decorated defs reached as caller.<name>)"
REQUIRED_COUNTERS += ["caller_scenarios"]

_st = {}


def setup_worker():
    from mako.template import Template

    _st["Template"] = Template


CTX = {"x": "X", "y": "Y", "flag1": True, "flag0": False, "zctx": "ZC"}


class G:
    def __init__(self, r, depth, allow_wrong=True):
        self.r = r
        self.maxdepth = depth
        self.n = 0
        self.allow_wrong = allow_wrong

    def uid(self):
        self.n += 1
        return self.n

    def sig(self):
        r = self.r
        sig = []
        for i in range(r.choice([0, 1, 1, 2])):
            sig.append(("p%d" % i, "pos", None))
        if r.random() < 0.4:
            sig.append(("q", "default", "dq"))
        if r.random() < 0.25:
            sig.append(("va", "varargs", None))
        if r.random() < 0.25:
            dflt = r.choice([None, "dko"])
            bare_star = not any(k == "varargs" for _, k, _ in sig)
            if bare_star and any(k == "default" for _, k, _ in sig) and dflt is None and r.random() < 0.9:
                dflt = "dko"  # the failing shape of C05/bare-star-dropped is kept rare
            sig.append(("ko", "kwonly", dflt))
            if r.random() < 0.4:
                # a second keyword-only parameter: with and without default in either order
                d2 = r.choice([None, "dk2"])
                if bare_star and d2 is None and (dflt is not None or any(k == "default" for _, k, _ in sig)) and r.random() < 0.9:
                    d2 = "dk2"
                sig.append(("k2", "kwonly", d2))
        if r.random() < 0.2:
            sig.append(("kw", "kwargs", None))
        return sig

    def call_args(self, sig, avail, ns_style=False, wrong=False):
        """arguments that bind correctly to sig (or deliberately not)"""
        r = self.r
        args = []

        def val():
            k = r.random()
            if avail and k < 0.5:
                return ("var", r.choice(avail))
            return ("lit", "L%d" % self.uid())

        kwmode = ns_style
        for name, kind, default in sig:
            if kind == "pos":
                if kwmode or r.random() < 0.3:
                    kwmode = True  # once a parameter is passed by keyword the following ones must be too
                    args.append(("kw", name, val()))
                else:
                    args.append(("pos", val()))
            elif kind in ("default", "cdefault") and r.random() < 0.5:
                args.append(("kw", name, val()))
            elif kind == "varargs" and not ns_style and r.random() < 0.5 and all(a[0] == "pos" for a in args):
                if not any(k2 == "default" for _, k2, _ in sig):
                    args.append(("pos", val()))
            elif kind == "kwonly" and (default is None or r.random() < 0.5):
                args.append(("kw", name, val()))
            elif kind == "kwargs" and r.random() < 0.5:
                if r.random() < 0.5:
                    # several keyword arguments collected by **kw, written out of alphabetical order: they arrive (and
                    # a printed dict shows them) in the order written
                    args.append(("kw", "zeta", val()))
                    args.append(("kw", "alpha", val()))
                    args.append(("kw", "mid", val()))
                else:
                    args.append(("kw", "extra", val()))
        if wrong:
            args.append(("kw", "nosuch_", ("lit", "w")))
        # keyword arguments after positional ones
        args = [a for a in args if a[0] == "pos"] + [a for a in args if a[0] == "kw"]
        if ns_style:
            # mixtures of literal text and ${}: the literal parts may be blank (a space between two values IS text)
            def mix(a):
                if a[2][0] == "lit" and r.random() < 0.15:
                    return ("kw", a[1], ("lit", r.choice([" ", "  ", " L "])))
                if a[2][0] != "var" or r.random() < 0.6:
                    return a
                pre, post = r.choice(["m", " ", "", "  "]), r.choice(["n", " ", "", "\t"])
                if r.random() < 0.4:
                    return ("kw", a[1], ("mix2", pre, a[2][1], r.choice([" ", "-", "  "]), r.choice(avail), post))
                return ("kw", a[1], ("mix", pre, a[2][1], post))

            args = [mix(a) for a in args]
        return args

    def make_def(self, idx, ndefs, nested_level=0):
        r = self.r
        d = {"name": "d%d" % idx if nested_level == 0 else "n%d_%d" % (idx, self.uid()), "sig": self.sig()}
        if nested_level == 1 and idx + 1 < ndefs and r.random() < 0.12:
            # a nested def named like a top-level def that comes later: inside its enclosing def the name means the
            # nested one (calls written for the top-level signature then bind, or fail to bind, to the nested one's)
            d["name"] = "d%d" % r.randrange(idx + 1, ndefs)
        if nested_level == 1 and r.random() < 0.35:
            # a nested def whose default reads a context variable that the enclosing def mentions nowhere else (the
            # default is evaluated in the enclosing def when the nested def is defined)
            at = next((i for i, (_, k, _) in enumerate(d["sig"]) if k in ("varargs", "kwonly", "kwargs")), len(d["sig"]))
            d["sig"].insert(at, ("cz", "cdefault", None))
        d["buffered"] = r.random() < 0.25
        d["filter"] = "fz" if r.random() < 0.25 else None
        d["decorator"] = (not d["buffered"]) and nested_level == 0 and r.random() < 0.2
        if d["decorator"] and any(k_ == "kwargs" for n_, k_, _ in d["sig"]) and r.random() < 0.7:
            d["decorator"] = "kdeco"  # a decorator whose wrapper adds a keyword argument (collected by the def's **kw)
        d["takes_content"] = nested_level == 0 and r.random() < 0.5
        d["cb_keys"] = ["k1"] if d["takes_content"] and r.random() < 0.5 else []
        # the body of a call may also declare keyword-only and ** parameters, which the callee fills by keyword
        d["cb_more"] = r.choice([None, None, "kwonly", "kwargs"]) if d["cb_keys"] else None
        d["cn_names"] = ["nx"] if d["takes_content"] and r.random() < 0.3 else []
        d["nested"] = []
        if nested_level == 0 and r.random() < 0.3:
            d["nested"].append(self.make_def(idx, ndefs, 1))
        return d

    def fill_bodies(self, defs):
        for i, d in enumerate(defs):
            later = defs[i + 1:]
            avail = [p for p, k, _ in d["sig"] if k in ("pos", "default", "cdefault", "kwonly")] + ["x", "y"]
            for nd in d["nested"]:
                nd["body"] = self.nodes(1, [x_ for x_ in later if x_["name"] != nd["name"]], avail + [p for p, k, _ in nd["sig"] if k in ("pos", "default", "cdefault", "kwonly")], None, nd, simple=True)
            d["body"] = self.nodes(1, later, avail, d, d)

    def nodes(self, depth, callable_defs, avail, in_def, owner, simple=False):
        r = self.r
        out = [("T", "[%s:" % (owner["name"] if owner else "body"))]
        for p, k, _ in (owner["sig"] if owner else []):
            if k in ("pos", "default", "cdefault", "kwonly"):
                out += [("V", p), ("T", ",")]
            elif k == "varargs":
                out += [("V", p), ("T", ",")]
            elif k == "kwargs":
                out += [("V", p), ("T", ",")]
        for _ in range(r.randint(1, 4)):
            out += self.node(depth, callable_defs, avail, in_def, owner, simple)
        out.append(("T", "]"))
        return out

    def node(self, depth, cdefs, avail, in_def, owner, simple):
        r = self.r
        k = r.random()
        plain = [d for d in cdefs if not d["takes_content"]]
        content = [d for d in cdefs if d["takes_content"]]
        if in_def is not None and in_def.get("takes_content") and k < 0.3:
            passed = [(kk, ("lit", "B%d" % self.uid()) if r.random() < 0.5 else ("var", r.choice(avail))) for kk in in_def["cb_keys"]]
            if in_def.get("cb_more") == "kwonly":
                passed.append(("k9", ("lit", "K%d" % self.uid())))
            elif in_def.get("cb_more") == "kwargs":
                passed.append(("xtra", ("lit", "X%d" % self.uid())))
            out = [("CB", passed)]
            if in_def["cn_names"] and r.random() < 0.5:
                out.append(("CN", "nx"))
            return out
        if owner is not None and owner.get("nested") and k < 0.45:
            nd = r.choice(owner["nested"])
            return [("C", nd["name"], self.call_args(nd["sig"], avail), r.choice(["expr", "concat"]))]
        if k < 0.45 and plain:
            d = r.choice(plain)
            how = r.choice(["expr", "expr", "concat", "capture", "self"])
            if how == "capture" and d["buffered"]:
                how = "expr"
            args = self.call_args(d["sig"], avail, wrong=self.allow_wrong and r.random() < 0.03)
            if r.random() < 0.08:
                bufd = [e for e in plain if e is not d and not e["sig"]]
                if bufd and args and args[0][0] == "pos":
                    args[0] = ("pos", ("call", r.choice(bufd)["name"]))
            return [("C", d["name"], args, how)]
        if k < 0.75 and content and depth < self.maxdepth and not simple:
            d = r.choice(content)
            style = r.choice(["ns", "call"])
            args = self.call_args(d["sig"], avail, ns_style=(style == "ns"))
            if style == "ns" and any(kk == "varargs" for _, kk, _ in d["sig"]):
                pass
            if style == "call" and r.random() < 0.08:
                bufd = [e for e in plain if not e["sig"]]
                if bufd and args and args[0][0] == "pos":
                    args[0] = ("pos", ("call", r.choice(bufd)["name"]))
            nested = []
            if d["cn_names"]:
                nx = {"name": "nx", "sig": [], "body": [("T", "<nx:"), ("V", r.choice(avail)), ("T", ">")], "nested": []}
                if r.random() < 0.4:
                    # its default reads a context variable mentioned nowhere else (evaluated where the call is written)
                    nx["sig"] = [("cz", "cdefault", None)]
                    nx["body"] = nx["body"][:-1] + [("T", ","), ("V", "cz"), ("T", ">")]
                if r.random() < 0.3:
                    nx["decorator"] = True   # the callee still reaches it as caller.nx
                nested.append(nx)
            more = {"kwonly": (["*", "k9"], ["k9"]), "kwargs": (["**kwb"], ["kwb"])}.get(d.get("cb_more"), ([], []))
            body = self.nodes(depth + 1, cdefs, avail + d["cb_keys"] + more[1], in_def, None)
            if more[1]:
                body = body[:-1] + [("V", more[1][0])] + body[-1:]   # the extra parameter is read in the body
            return [("CC", d["name"], args, list(d["cb_keys"]) + more[0], body, nested, style)]
        if k < 0.82 and depth < self.maxdepth:
            return [("IF", r.choice(["flag1", "flag0"]), self.nodes(depth + 1, cdefs, avail, in_def, None, simple))]
        if k < 0.9 and depth < self.maxdepth:
            v = "i%d" % self.uid()
            return [("FOR", v, r.randint(0, 2), self.nodes(depth + 1, cdefs, avail + [v], in_def, None, simple))]
        if k < 0.93:
            return [("V", r.choice(avail))]
        if k < 0.96:
            # an anonymous filtered block, also inside def and call bodies; it reads render-wide names only (a block in
            # a call body is written beside body() and does not see the body's arguments)
            return [("TF", [("T", "tf%d:" % self.uid()), ("V", r.choice(["x", "y"]))])]
        return [("T", "t%d" % self.uid())]


def gen_doc(r, depth, allow_wrong=True):
    g = G(r, depth, allow_wrong)
    ndefs = r.randint(1, 4)
    defs = [g.make_def(i, ndefs) for i in range(ndefs)]
    g.fill_bodies(defs)
    body = g.nodes(1, defs, ["x", "y"], None, None)
    return {"body": body, "defs": defs}


def run_doc(doc, res, rc, bf):
    T = _st["Template"]
    text = tdoc.emit(doc)
    m = tdoc.Model(doc, CTX, buffer_filters=bf)
    try:
        exp = m.render()
    except tdoc.TooLarge:
        res.count("skipped_too_large")
        return
    res.evaluations += 1
    kw = {"buffer_filters": list(bf)} if bf else {}
    try:
        t = T(text, **kw)
    except Exception as e:
        # (the generated signature then reads `def d(q='dq', ko)`: CPython's message for exactly that)
        fid = "C05/bare-star-dropped" if isinstance(e, SyntaxError) and has_bare_star_shape(doc) and (
            "without a default follows" in str(e) or "non-default argument follows default" in str(e)) else None
        res.violate("compile-raises", "template\n%s\nraised %s: %s" % (text[len(tdoc.MODULE_BLOCK):], type(e).__name__, e), finding=fid,
                    witness="<%def name=\"d(q='dq', *, ko)\">: SyntaxError from the generated module" if fid else None, replay_case=rc)
        return
    mon = rendermon.Monitor(t.module)
    import signal

    def _alarm(signum, frame):
        raise TimeoutError("render did not finish within 30 s although the model needed %d steps" % m.steps)

    signal.signal(signal.SIGALRM, _alarm)
    signal.setitimer(signal.ITIMER_REAL, 30)
    try:
        with mon:
            got = ("out", t.render_unicode(**CTX))
    except Exception as e:
        got = ("exc", e)
    finally:
        signal.setitimer(signal.ITIMER_REAL, 0)
    res.count("renders_compared")
    res.count("frames_checked", mon.frames)
    for p in mon.problems:
        res.violate("render-state-unbalanced", "template\n%s\n%s" % (text[len(tdoc.MODULE_BLOCK):], p), replay_case=rc)
    ok = got[0] == exp[0] and (got[1] == exp[1] if got[0] == "out" else type(got[1]).__name__ == type(exp[1]).__name__)
    if exp[0] == "exc" and ok:
        res.count("argument_errors_matched")
    if ok and exp[0] == "out" and len(text) % 3 == 0:
        # the same document with an output encoding: buffered / filtered / captured pieces are still text while they
        # are put together, only the final result is encoded
        try:
            gotb = T(text, output_encoding="utf-8", **kw).render(**CTX)
        except Exception as e:
            gotb = "%s: %s" % (type(e).__name__, e)
        res.count("renders_with_output_encoding")
        if gotb != exp[1].encode("utf-8"):
            res.violate("def-semantics-encoded", "template\n%s\nwith output_encoding='utf-8' render() gave %r\nexpected the bytes of %r" % (
                text[len(tdoc.MODULE_BLOCK):], gotb if not isinstance(gotb, bytes) else gotb[:300], exp[1][:300]), replay_case=rc)
    if not ok:
        fid = None
        if any_bare_star(doc):
            # recogniser: the interpreter in which a signature loses its bare '*' (keyword-only parameters can then
            # be filled positionally) reproduces Mako's result exactly
            tdoc.DROP_BARE_STAR = True
            try:
                try:
                    mq = tdoc.Model(doc, CTX, buffer_filters=bf)
                    mq.max_steps = 400000  # (calls that bind after all make the document run much longer)
                    expq = mq.render()
                    runaway = False
                except tdoc.TooLarge:
                    expq, runaway = None, True
                except Exception:
                    expq, runaway = None, False
            finally:
                tdoc.DROP_BARE_STAR = False
            if expq is not None and got[0] == expq[0] and (got[1] == expq[1] if got[0] == "out" else type(got[1]).__name__ == type(expq[1]).__name__):
                fid = "C05/bare-star-dropped"
            elif runaway:
                # with the star dropped a call binds that should have failed, and the document then runs away (megabytes
                # of output, or beyond the render watchdog): the interpreter with that quirk gives up beyond 400000
                # steps, so there is nothing to compare Mako's result with - this document decides nothing
                res.count("not_asserted_bare_star_runaway_documents")
                return
        res.violate(
            "def-semantics",
            "template\n%s\nrendered %r\nexpected %r" % (text[len(tdoc.MODULE_BLOCK):], short(got), short(exp)),
            finding=fid, witness="<%def name=\"d(q='dq', *, ko)\">: SyntaxError from the generated module" if fid else None, replay_case=rc,
        )
    ev = m.events
    if "ccall" in ev:
        res.count("ccall_docs")
    if "caller.body" in ev:
        res.count("caller_body_docs")
    if "ccall" in ev and ev & {"buffered", "filtered", "capture", "concat"}:
        res.nontrivial("c05", text, bool(bf))
    if res.sample is None:
        res.sample = {"template": text[len(tdoc.MODULE_BLOCK):][:700], "expected": short(exp)[:300]}


def short(x):
    return (x[0], x[1] if isinstance(x[1], str) else "%s: %s" % (type(x[1]).__name__, x[1]))


def any_bare_star(doc):
    """some def (nested ones included) declares keyword-only parameters after a bare '*'"""
    def bare(d):
        kinds = [k for _, k, _ in d["sig"]]
        return ("kwonly" in kinds and "varargs" not in kinds) or any(bare(nd) for nd in d.get("nested", []))

    return any(bare(d) for d in doc["defs"])


def has_bare_star_shape(doc):
    """recogniser for C05/bare-star-dropped: some def has a keyword-only parameter without default after a
    bare '*' and a defaulted parameter before it - with the '*' dropped that signature is invalid Python"""

    def bad(d):
        kinds = [k for _, k, _ in d["sig"]]
        if "varargs" not in kinds and "kwonly" in kinds:
            # the signature as it reads once the bare '*' is gone: invalid iff a parameter without default follows
            # one with a default
            seen_default = False
            for _, k, dv in d["sig"]:
                if k in ("default", "cdefault") or (k == "kwonly" and dv is not None):
                    seen_default = True
                elif k in ("pos", "kwonly") and seen_default:
                    return True
        return any(bad(nd) for nd in d.get("nested", []))

    return any(bad(d) for d in doc["defs"])


def doc_has_call_in_ccall_args(doc):
    found = []

    def walk(nodes):
        for n in nodes:
            if n[0] == "CC":
                if any((a[0] == "pos" and a[1][0] == "call") or (a[0] == "kw" and a[2][0] == "call") for a in n[2]):
                    found.append(n)
                walk(n[4])
                for nd in n[5]:
                    walk(nd["body"])
            elif n[0] in ("IF",):
                walk(n[2])
            elif n[0] == "FOR":
                walk(n[3])
            elif n[0] == "TRY":
                walk(n[1])
                walk(n[2])
            elif n[0] == "TF":
                walk(n[1])

    def walkdef(d):
        walk(d["body"])
        for nd in d.get("nested", []):
            walkdef(nd)

    walk(doc["body"])
    for d in doc["defs"]:
        walkdef(d)
    return bool(found)


# ------------------------------------------------------------------ directed: what `caller` is, and for whom
_DECO = '<%!\ndef deco(fn):\n    def wrapper(context, *a, **k):\n        context.write("<")\n        fn(*a, **k)\n        context.write(">")\n        return ""\n    return wrapper\n%>'
_ITEM = '<%def name="it(x, y=\'d\', *r, sep=\'-\', **e)" decorator="deco">${x}${sep}${y}${sep}${len(r)}${sep}${sorted(e.items())}</%def>'
_ITEM_OUT = "<1-g-0-[]>|<2+p+1+[]>|<3-d-0-[('k', 7)]>"
CALLER_SCENARIOS = [
    # (name, template, expected output, finding id when the known quirk output is seen, quirk output)
    ("plain-call-has-no-caller", '<%def name="g()">[g:${"C1" if caller else "C0"}]</%def>${g()}', "[g:C0]", None, None),
    ("callee-has-caller", '<%def name="f()">[f:${"C1" if caller else "C0"}|${caller.body()}]</%def><%call expr="f()">B</%call>', "[f:C1|B]", None, None),
    ("caller-restored-after-call", '<%def name="f()">${caller.body()}</%def><%def name="g()">[g:${"C1" if caller else "C0"}]</%def>'
                                   '<%call expr="f()">B</%call>${g()}', "B[g:C0]", None, None),
    ("def-called-from-callee-has-no-caller", '<%def name="g()">[g:${"C1" if caller else "C0"}]</%def><%def name="f()">${g()}${caller.body()}</%def>'
                                             '<%call expr="f()">B</%call>', "[g:C0]B", None, None),
    ("def-called-from-call-body-has-no-caller", '<%def name="g()">[g:${"C1" if caller else "C0"}]</%def><%def name="f()">${caller.body()}</%def>'
                                                '<%call expr="f()">${g()}</%call>', "[g:C0]", None, None),
    # the callee is f; g is merely evaluated to produce f's argument and was not called with content
    ("def-in-call-arguments", '<%def name="g()">[g:${"C1" if caller else "C0"}]</%def><%def name="f(a)">[f:${a}|${caller.body()}]</%def>'
                              '<%call expr="f(g())">B</%call>', "[g:C0][f:|B]", "C05/def-in-call-arguments-sees-caller", "[g:C1][f:|B]"),
    ("buffered-def-in-call-arguments", '<%def name="g()" buffered="True">[g:${"C1" if caller else "C0"}]</%def><%def name="f(a)">[f:${a}|${caller.body()}]</%def>'
                                       '<%call expr="f(a=g())">B</%call>', "[f:[g:C0]|B]", "C05/def-in-call-arguments-sees-caller", "[f:[g:C1]|B]"),
    ("def-in-ns-call-attribute", '<%def name="g()" buffered="True">[g:${"C1" if caller else "C0"}]</%def><%def name="f(a)">[f:${a}|${caller.body()}]</%def>'
                                 '<%self:f a="${g()}">B</%self:f>', "[f:[g:C0]|B]", "C05/def-in-call-arguments-sees-caller", "[f:[g:C1]|B]"),
    ("body-taking-def-in-call-arguments", '<%def name="g()" buffered="True">[g:${caller.body() if caller else "nobody"}]</%def><%def name="f(a)">[f:${a}|${caller.body()}]</%def>'
                                          '<%call expr="f(g())">B</%call>', "[f:[g:nobody]|B]", "C05/def-in-call-arguments-sees-caller", "[f:[g:B]|B]"),
    # defs written inside a call: their signature follows the rule of every other def (defaults are evaluated where the
    # def is defined, names not assigned there come from the context) and the callee reaches them by their own name
    ("call-def-default-from-context", '<%def name="w()">${caller.nx()}</%def><%call expr="w()"><%def name="nx(a=cv)">[${a}]</%def></%call>', "[CV]", None, None),
    ("call-def-default-from-context-given", '<%def name="w()">${caller.nx("G")}${caller.nx(a="K")}</%def><%call expr="w()"><%def name="nx(a=cv)">[${a}]</%def></%call>', "[G][K]", None, None),
    ("ns-call-def-default-from-context", '<%def name="w()">${caller.nx()}</%def><%self:w><%def name="nx(a=cv)">[${a}]</%def></%self:w>', "[CV]", None, None),
    ("call-def-default-from-context-in-def", '<%def name="w()">${caller.nx()}</%def><%def name="o()"><%call expr="w()"><%def name="nx(a=cv, b=cv + \'2\')">[${a}${b}]</%def></%call></%def>${o()}',
     "[CVCV2]", None, None),
    ("call-def-default-from-context-in-loop", '<%def name="w()">${caller.nx()}</%def>\\\n% for i in (1, 2):\n<%call expr="w()"><%def name="nx(a=cv)">[${a}${i}]</%def></%call>\\\n% endfor\n',
     "[CV1][CV2]", None, None),
    ("call-def-default-from-enclosing-argument", '<%def name="w()">${caller.nx()}</%def><%def name="o(cv)"><%call expr="w()"><%def name="nx(a=cv)">[${a}]</%def></%call></%def>${o("ARG")}',
     "[ARG]", None, None),
    ("call-def-default-from-page-assignment", '<% lv = "LV" %><%def name="w()">${caller.nx()}</%def><%call expr="w()"><%def name="nx(a=lv)">[${a}]</%def></%call>', "[LV]", None, None),
    ("call-def-default-from-module-block", '<%! mv = "MV" %><%def name="w()">${caller.nx()}</%def><%call expr="w()"><%def name="nx(a=mv)">[${a}]</%def></%call>', "[MV]", None, None),
    ("nested-call-def-default-from-context", '<%def name="w()">${caller.nx()}</%def><%def name="v()">(${caller.body()})</%def>'
                                             '<%call expr="v()"><%call expr="w()"><%def name="nx(a=cv)">[${a}]</%def></%call></%call>', "([CV])", None, None),
    ("decorated-call-def-by-name", '<%!\ndef deco(fn):\n    def go(context, *a, **k):\n        context.write("<")\n        fn(*a, **k)\n        context.write(">")\n        return ""\n    return go\n%>'
                                   '<%def name="w()">${caller.nx("A")}|${caller.body()}</%def><%call expr="w()">B<%def name="nx(a)" decorator="deco">[${a}]</%def></%call>',
     "<[A]>|B", None, None),
    ("decorated-ns-call-def-by-name", '<%!\ndef deco(fn):\n    def go(context, *a, **k):\n        context.write("<")\n        fn(*a, **k)\n        context.write(">")\n        return ""\n    return go\n%>'
                                      '<%def name="w()">${caller.nx()}${caller.ny()}</%def><%self:w><%def name="nx()" decorator="deco">[nx]</%def><%def name="ny()">[ny]</%def></%self:w>',
     "<[nx]>[ny]", None, None),
    ("decorated-nested-def-by-name", '<%!\ndef deco(fn):\n    def go(context, *a, **k):\n        context.write("<")\n        fn(*a, **k)\n        context.write(">")\n        return ""\n    return go\n%>'
                                     '<%def name="o()"><%def name="inner()" decorator="deco">[in]</%def>${inner()}</%def>${o()}', "<[in]>", None, None),
    # decorator= wraps the call and leaves the binding of the arguments to Python: keywords, extra positionals,
    # keyword-only values and **kw reach a decorated def exactly as they reach an undecorated one
    ("decorated-nested-def-keywords", _DECO + '<%def name="o()">' + _ITEM + "${it(1, y='g')}|${it(2, 'p', 'r1', sep='+')}|${it(3, k=7)}</%def>${o()}", _ITEM_OUT, None, None),
    ("decorated-toplevel-def-keywords", _DECO + _ITEM + "${it(1, y='g')}|${it(2, 'p', 'r1', sep='+')}|${it(3, k=7)}", _ITEM_OUT, None, None),
    ("decorated-def-in-block-keywords", _DECO + '<%block name="b">' + _ITEM + "${it(1, y='g')}|${it(2, 'p', 'r1', sep='+')}|${it(3, k=7)}</%block>", _ITEM_OUT, None, None),
    ("decorated-def-in-anonymous-block-keywords", _DECO + "<%block>" + _ITEM + "${it(1, y='g')}|${it(2, 'p', 'r1', sep='+')}|${it(3, k=7)}</%block>", _ITEM_OUT, None, None),
    ("decorated-call-def-keywords", _DECO + "<%def name=\"w()\">${caller.it(1, y='g')}|${caller.it(2, 'p', 'r1', sep='+')}|${caller.it(3, k=7)}</%def><%call expr=\"w()\">" + _ITEM + "</%call>",
     _ITEM_OUT, None, None),
    ("decorated-def-through-self-keywords", _DECO + _ITEM + "${self.it(1, y='g')}|${self.it(2, 'p', 'r1', sep='+')}|${self.it(3, k=7)}", _ITEM_OUT, None, None),
    ("decorated-def-through-ns-tag-keywords", _DECO + _ITEM + '<%self:it x="1" y="g"/>|<%self:it x="3" k="${7}"/>', "<1-g-0-[]>|<3-d-0-[('k', 7)]>", None, None),
]


def run_caller_scenarios(res):
    T = _st["Template"]
    for name, text, exp, fid, quirk in CALLER_SCENARIOS:
        res.evaluations += 1
        res.count("caller_scenarios")
        try:
            got = T(text).render_unicode(cv="CV")
        except Exception as e:
            got = "%s: %s" % (type(e).__name__, e)
        if got != exp:
            res.violate(("caller-for-whom-" if "caller" in name else "defs-of-a-call-") + name, "template %r rendered %r, expected %r" % (text, got, exp),
                        finding=fid if got == quirk else None,
                        witness='<%call expr="f(g())">B</%call>: g, called to produce f\'s argument, already sees the caller meant for f (C1 / caller.body() gives B)')
        res.nontrivial("caller-scenario", name)


def gen_cases(tier, seed):
    yield {"kind": "suite"}
    yield {"kind": "caller-scenarios"}
    n = 8000 if tier == "quick" else 80000
    per = 50
    for i in range(n // per):
        yield {"kind": "batch", "seed": seed, "index": i, "n": per, "depth": (4 if i % 4 == 3 else 3) if tier == "quick" else 4}


def run_case(case):
    res = common.CaseResult()
    if case["kind"] == "batch":
        r = common.rng_for(case["seed"], "c05", case["index"])
        for j in range(case["n"]):
            st = r.getstate()
            doc = gen_doc(r, case["depth"])
            bf = ["gz"] if r.random() < 0.3 else []
            run_doc(doc, res, {"kind": "doc", "doc": doc, "bf": bf}, bf)
    elif case["kind"] == "suite":
        rep = common.run_suite_with_monitors()
        if rep is None:
            res.count("suite_skipped_no_tests")
        elif "error" in rep:
            res.violate("suite-run-failed", "the repository suite could not be run under the monitor: %s" % rep["error"])
        else:
            res.evaluations += 1
            res.count("suite_frames_checked", rep["frames"])
            for p in rep["render_problems"]:
                res.violate("suite-render-state-unbalanced", "while the repository's own tests ran: %s" % p)
    elif case["kind"] == "caller-scenarios":
        run_caller_scenarios(res)
    elif case["kind"] == "doc":
        run_doc(fix(case["doc"]), res, case, case["bf"])
    return res


def fix(x):
    """JSON turns tuples into lists; the interpreter only indexes, so lists are fine"""
    return x

"""C17 - cached sections run once per key and replay their exact output.

History + model.  Generated templates have a page, defs (one with arguments and an optional
cache_key), a nested def, a named and an anonymous block, each cached or not, with
buffered/filter flags.  Every section prints a per-section execution counter obtained from the
context (tick), so the output shows both replayed text and whether the body ran.  The model keeps
cache[(template, key)] = output.  A recording CacheImpl registered with mako.cache logs every
backend call with its keyword arguments (argument precedence, timeout type, context).
"""
import copy
import os
import time
import shutil
import tempfile

from mk import common

PROPERTY = "C17"
LEVEL = "exploration"
RULE = (
    "templates: every combination of cached flags on {page, d0(a), d1, nested inner, named block, anonymous "
    "block} is reachable; cache_key on page/d0 optional; buffered/filter flags, cache_timeout/cache_* "
    "arguments at template, page and section level random. histories of length 8-30 over {render(x, pk), "
    "invalidate_body, invalidate_def, invalidate_closure, invalidate(key), cache.set/get, toggle cache_enabled}; "
    "1-3 templates share one backend, some with URIs differing only in punctuation. backends: recording "
    "reference backend, Beaker memory, Beaker file, dogpile.cache. distinct = by (template texts, backend, "
    "history); non-trivial = at least one section was replayed from the cache and one was re-executed after "
    "an invalidation."
)
RULE += " added since: six d0 signatures (keyword-only after *args included), recompilation under the same URI honouring the backend's starttime, inherited cached sections, invalidate postconditions, exact kwargs handed to the backend, cached sections that raise. cached sections of INCLUDED templates (same-named defs in includer and included; include_error_handler unset / returning False / True; invalidation per template). the included template's cached sections also reached through a <%namespace> of the including one. two cached anonymous blocks whose line/column digits read alike, in different callables."
ASSUMPTIONS = [
    "the recording backend stores per (Cache.id, key), as Beaker does with namespaces",
    "no expiry is exercised: timeouts are large (Beaker/dogpile use real time)",
    "dogpile regions are keyed by key only (third-party plugin), so each template gets regions of its own",
]
MIN_NONTRIVIAL = 100
REQUIRED_COUNTERS = ["renders", "inherited_cached_renders", "recompiles_under_the_same_uri", "cache_hits_predicted", "reexecutions_after_invalidate", "backend_calls_logged", "kwargs_checked", "disabled_renders", "included_cached_renders"]
REQUIRED_COUNTERS += ["anonymous_position_templates"]
RULE += "; cached sections whose stored output is the empty string (seven shapes) on rec, Beaker memory/file and the in-tree \"plain\" backend"
REQUIRED_COUNTERS += ["empty_output_templates"]
RULE += "; cached sections of a module wrapped as ModuleTemplate (and its get_def) on rec and Beaker memory/file"
REQUIRED_COUNTERS += ["module_template_cached_renders"]
RULE += "; cached sections called below another buffer (capture, call bodies of buffered defs, buffered / filtered siblings), compared with the uncached template"
REQUIRED_COUNTERS += ["nested_cached_buffer_templates"]
RULE += "; the deprecated cache_type / cache_dir / cache_url arguments on some of six templates built one after the other"
REQUIRED_COUNTERS += ["legacy_argument_templates"]

_st = {"counter": 0}


class Rec:
    """process-wide recording backend state"""
    store = {}
    created = {}
    log = []
    pass_context = False


def setup_worker():
    import mako.cache
    from mako.cache import CacheImpl
    from mako.lookup import TemplateLookup
    from mako.template import Template

    class RecImpl(CacheImpl):
        @property
        def pass_context(self):
            return Rec.pass_context

        def get_or_create(self, key, creation_function, **kw):
            Rec.log.append(("get_or_create", self.cache.id, key, dict(kw)))
            k = (self.cache.id, key)
            # like the Beaker backend: an entry stored before the owning Template was compiled (Cache.starttime)
            # belongs to the template this one replaced and is not served
            if k not in Rec.store or Rec.created.get(k, 0) < self.cache.starttime:
                Rec.store[k] = creation_function()
                Rec.created[k] = time.time()
            return Rec.store[k]

        def set(self, key, value, **kw):
            Rec.log.append(("set", self.cache.id, key, dict(kw)))
            Rec.store[(self.cache.id, key)] = value
            Rec.created[(self.cache.id, key)] = time.time()

        def get(self, key, **kw):
            Rec.log.append(("get", self.cache.id, key, dict(kw)))
            if Rec.created.get((self.cache.id, key), 0) < self.cache.starttime:
                return None
            return Rec.store.get((self.cache.id, key))

        def invalidate(self, key, **kw):
            Rec.log.append(("invalidate", self.cache.id, key, dict(kw)))
            Rec.store.pop((self.cache.id, key), None)

    import sys

    mod = type(sys)("verif_c17_rec")
    mod.RecImpl = RecImpl
    sys.modules["verif_c17_rec"] = mod
    mako.cache.register_plugin("rec", "verif_c17_rec", "RecImpl")
    cwd = os.getcwd()
    try:
        # (mako.testing reads ./setup.cfg when it is imported)
        os.chdir(common.REPO)
        import mako.testing.fixtures  # noqa: F401  (registers the in-tree "plain" backend)
        _st["plain"] = True
    except BaseException:
        _st["plain"] = False
    finally:
        os.chdir(cwd)
    _st.update(Template=Template, TemplateLookup=TemplateLookup, tmp=tempfile.mkdtemp(prefix="c17-"))
    import atexit

    atexit.register(lambda: shutil.rmtree(_st["tmp"], ignore_errors=True))


# ------------------------------------------------------------------ template spec -> text + model
def gen_spec(r, tag):
    sec = {}
    for name in ("page", "d0", "d1", "inner", "b0", "anon"):
        sec[name] = {
            "cached": r.random() < 0.6,
            "buffered": name in ("d0", "d1", "inner") and r.random() < 0.3,
            "filter": name in ("d0", "d1", "b0") and r.random() < 0.3,
            "args": {},
        }
        if r.random() < 0.3:
            sec[name]["args"]["timeout"] = r.choice(["3600", "7200"])
        if r.random() < 0.25:
            sec[name]["args"]["opt"] = r.choice(["sec-%s" % name, "o2"])
    sec["page"]["key"] = r.random() < 0.3
    sec["d0"]["key"] = r.random() < 0.6
    tpl_args = {}
    if r.random() < 0.4:
        tpl_args["opt"] = "tpl"
    if r.random() < 0.3:
        tpl_args["timeout"] = 999
    if r.random() < 0.3:
        tpl_args["tonly"] = "t"
    return {"tag": tag, "sec": sec, "tpl_args": tpl_args, "d0sig": r.randrange(len(D0SIGS)) if r.random() < 0.5 else 0}


# signatures of the cached def d0: (signature, extra call arguments, extra body text, what that text renders)
D0SIGS = [
    ("a", "", "", ""),
    ("a, *va, ko", ", 'v', ko='k'", "${ko}${va}", "k('v',)"),
    ("a, *va, ko='z', **kw", ", 'v', q=1", "${ko}${sorted(kw)}", "z['q']"),
    ("a, b='B', **kw", ", b='b2', z=3", "${b}${sorted(kw)}", "b2['z']"),
    ("a, b='B'", "", "${b}", "B"),
]


def attrs(s, name, dog=None):
    a = ""
    if s["cached"]:
        a += ' cached="True"'
    for k, v in s["args"].items():
        a += ' cache_%s="%s"' % (k, v)
    if s["cached"] and dog:
        a += ' cache_region="%s"' % dog
    if s.get("buffered"):
        a += ' buffered="True"'
    if s.get("filter"):
        a += ' filter="fz"'
    return a


def emit(spec, dog=None):
    S = spec["sec"]
    T = spec["tag"]
    page = "<%%page%s%s/>" % (attrs(S["page"], "page", dog), ' cache_key="${pk}"' if S["page"]["cached"] and S["page"]["key"] else "")
    if page == "<%page/>":
        page = ""
    d0key = ' cache_key="d0-${str(a)}"' if S["d0"]["cached"] and S["d0"]["key"] else ""
    sig, cx, bx, _ = D0SIGS[spec.get("d0sig", 0)]
    text = (
        page + "\n<%!\ndef fz(s):\n    return 'fz(' + s + ')'\n%>"
        + "BODY:" + T + "[${tick('body')}|${x}]"
        + "${d0(1%s)}${d0(2%s)}${d0(1%s)}${d1()}" % (cx, cx, cx)
        + "<%%block name=\"b0\"%s>B0:%s[${tick('b0')}|${x}]</%%block>" % (attrs(S["b0"], "b0", dog), T)
        + "<%%block%s>AN:%s[${tick('anon')}|${x}]</%%block>" % (attrs(S["anon"], "anon", dog), T)
        + "<%%def name=\"d0(%s)\"%s%s>D0:%s[${a}%s|${tick('d0')}|${x}]</%%def>" % (sig, attrs(S["d0"], "d0", dog), d0key, T, bx)
        + "<%%def name=\"d1()\"%s>D1:%s[${tick('d1')}|${x}]${inner()}<%%def name=\"inner()\"%s>IN:%s[${tick('inner')}|${x}]</%%def></%%def>"
        % (attrs(S["d1"], "d1", dog), T, attrs(S["inner"], "inner", dog), T)
    )
    return text


class Model:
    def __init__(self, spec, store=None):
        self.spec = spec
        self.store = {} if store is None else store
        self.enabled = True
        self.ticks = {}
        self.seen = set()

    def tick(self, n):
        self.ticks[n] = self.ticks.get(n, 0) + 1
        return self.ticks[n]

    def section(self, name, key, body):
        s = self.spec["sec"][name]
        if s["cached"] and self.enabled:
            self.seen.add(name)  # the section's own cache arguments are known to the Cache from now on
            if key in self.store:
                self.hits += 1
                return self.store[key]
            out = self.finish(s, body())
            self.store[key] = out
            self.misses.append(key)
            return out
        return self.finish(s, body())

    @staticmethod
    def finish(s, text):
        return "fz(" + text + ")" if s.get("filter") else text

    def render(self, x, pk):
        self.hits = 0
        self.misses = []
        T = self.spec["tag"]
        S = self.spec["sec"]

        def inner():
            return self.section("inner", "inner", lambda: "IN:%s[%d|%s]" % (T, self.tick("inner"), x))

        def d0(a):
            key = "d0-%s" % a if S["d0"]["key"] else "render_d0"
            return self.section("d0", key, lambda: "D0:%s[%s%s|%d|%s]" % (T, a, D0SIGS[self.spec.get("d0sig", 0)][3], self.tick("d0"), x))

        def d1():
            return self.section("d1", "render_d1", lambda: "D1:%s[%d|%s]" % (T, self.tick("d1"), x) + inner())

        def body():
            out = "\nBODY:%s[%d|%s]" % (T, self.tick("body"), x)
            out += d0(1) + d0(2) + d0(1) + d1()
            out += self.section("b0", "render_b0", lambda: "B0:%s[%d|%s]" % (T, self.tick("b0"), x))
            out += self.section("anon", self.spec.get("anon_key", "<anon>"), lambda: "AN:%s[%d|%s]" % (T, self.tick("anon"), x))
            return out

        pkey = pk if S["page"]["key"] else "render_body"
        return self.section("page", pkey, body)


def expected_kwargs(spec, name):
    kw = dict(spec["tpl_args"])
    for src in (spec["sec"]["page"]["args"], spec["sec"][name]["args"]):
        for k, v in src.items():
            kw[k] = int(v) if k == "timeout" else v
    return kw


# ------------------------------------------------------------------ running a history
def make_backend(backend, uid):
    """-> (cache_impl, base cache_args, dogpile region name or None)"""
    if backend == "rec":
        return "rec", {}, None
    if backend == "beaker-memory":
        return "beaker", {"type": "memory"}, None
    if backend == "beaker-file":
        d = os.path.join(_st["tmp"], "bk%s" % uid)
        return "beaker", {"type": "file", "dir": d}, None
    if backend == "dogpile":
        from dogpile.cache import make_region

        regions = {"reg": make_region().configure("dogpile.cache.memory", expiration_time=3600)}
        return "dogpile.cache", {"regions": regions, "region": "reg"}, "reg"
    raise ValueError(backend)


def run_history(case, res):
    r = common.rng_for(case["seed"], "c17", case["index"], case["j"])
    backend = case["backend"]
    _st["counter"] += 1
    uid = "%d_%d" % (os.getpid(), _st["counter"])
    ntpl = r.choice([1, 1, 2, 3])
    punct = ntpl >= 2 and r.random() < 0.5
    specs, tpls, models, tickers, build = [], [], [], [], []
    qmodels = []      # quirk universe for C17/cache-id-collision: colliding templates share one store
    qstore = {}
    Rec.store.clear()
    Rec.created.clear()
    del Rec.log[:]
    Rec.pass_context = r.random() < 0.5
    for i in range(ntpl):
        spec = gen_spec(r, "T%d" % i)
        if backend != "rec":
            spec["tpl_args"] = {}
            for s in spec["sec"].values():
                s["args"] = {k: v for k, v in s["args"].items() if k == "timeout"}
        impl, base_args, dog = make_backend(backend, uid + "_%d" % i)
        text = emit(spec, dog)
        # the internal name of the anonymous block (its default cache key) comes from its position in the text
        at = text.index("<%block" + attrs(spec["sec"]["anon"], "anon", dog) + ">AN:")
        spec["anon_key"] = "__M_anon_%d_%d" % (text.count("\n", 0, at) + 1, at - text.rfind("\n", 0, at))
        if punct:
            uri = "/h%s/a%sb.html" % (uid, "-_."[i])
        else:
            uri = "/h%s/t%d.html" % (uid, i)
        cargs = dict(base_args)
        cargs.update(spec["tpl_args"])
        try:
            t = _st["Template"](text, uri=uri, cache_impl=impl, cache_args=cargs)
        except Exception as e:
            res.violate("compile-raises", "template %r raised %s: %s" % (text, type(e).__name__, e))
            return
        specs.append(spec)
        build.append((impl, cargs, dog))
        tpls.append(t)
        models.append(Model(spec))
        qmodels.append(Model(spec, qstore))
        ticks = {}
        tickers.append(ticks)
    rc = dict(case)
    flags = set()
    nops = r.randint(8, 30)
    for step in range(nops):
        i = r.randrange(ntpl)
        t, m, spec = tpls[i], models[i], specs[i]
        k = r.random()
        res.evaluations += 1
        what = "backend=%s step %d template %s (%s)" % (backend, step, spec["tag"], t.uri)
        if k < 0.55:
            x = "x%d" % r.randrange(4)
            pk = "pk%d" % r.randrange(2)
            ticks = tickers[i]

            def tick(n, ticks=ticks):
                ticks[n] = ticks.get(n, 0) + 1
                return ticks[n]

            exp = m.render(x, pk)
            rid = "render-%d-%d" % (step, i)
            if backend == "rec":
                # calls made outside any render (invalidate_*, set, get) have no rendering context to pass
                for op, cid, key, kw in Rec.log:
                    if op != "get_or_create" and "context" in kw:
                        res.violate("context-passed-outside-render", "%s: backend %s(%r) received a context (%r) although no render was in progress" % (what, op, key, kw["context"]), replay_case=rc)
                        break
                del Rec.log[:]
            qexp = qmodels[i].render(x, pk) if punct else None
            nlog = len(Rec.log)
            try:
                out = t.render_unicode(tick=tick, x=x, pk=pk, rid=rid)
            except Exception as e:
                res.violate("render-raises", "%s: render raised %s: %s\n%s" % (what, type(e).__name__, e, t.source), replay_case=rc)
                return
            res.count("renders")
            if not m.enabled:
                res.count("disabled_renders")
            res.count("cache_hits_predicted", m.hits)
            if m.hits:
                flags.add("hit")
            if any(("inv", i, key) in flags for key in m.misses):
                res.count("reexecutions_after_invalidate")
                flags.add("reexec")
            if out != exp or ticks != m.ticks:
                fid = None
                if punct and out == qexp and ticks == qmodels[i].ticks:
                    # recogniser: a model in which the templates whose URIs differ only in non-word
                    # characters share one entry store reproduces the observed output exactly
                    fid = "C17/cache-id-collision"
                res.violate(
                    "cached-output",
                    "%s: render(x=%s, pk=%s) gave\n %r\n expected\n %r\n execution counters %r, expected %r\n template: %s"
                    % (what, x, pk, out, exp, ticks, m.ticks, t.source),
                    finding=fid, witness="templates put at URIs .../a-b.html, .../a_b.html, .../a.b.html share cache entries" if fid else None, replay_case=rc,
                )
                return
            if backend == "rec":
                check_log(res, spec, t, Rec.log[nlog:], what, rc, m, rid)
        elif k < 0.63:
            nlog = len(Rec.log)
            t.cache.invalidate_body()
            check_invalidate(res, spec, m, "page", "render_body", Rec.log[nlog:], backend, what, rc)
            m.store.pop("render_body", None)
            qstore.pop("render_body", None)
            flags.add(("inv", i, "render_body"))
        elif k < 0.75:
            n = r.choice(["d0", "d1", "b0"])
            nlog = len(Rec.log)
            t.cache.invalidate_def(n)
            check_invalidate(res, spec, m, n, "render_" + n, Rec.log[nlog:], backend, what, rc)
            m.store.pop("render_" + n, None)
            qstore.pop("render_" + n, None)
            flags.add(("inv", i, "render_" + n))
        elif k < 0.81:
            nlog = len(Rec.log)
            t.cache.invalidate_closure("inner")
            check_invalidate(res, spec, m, "inner", "inner", Rec.log[nlog:], backend, what, rc)
            m.store.pop("inner", None)
            qstore.pop("inner", None)
            flags.add(("inv", i, "inner"))
        elif k < 0.88:
            key = r.choice(["d0-1", "d0-2", "pk0", "pk1"])
            sec = "d0" if key.startswith("d0") else "page"
            if backend == "rec" or not spec["sec"][sec]["args"]:
                kw = {"__M_defname": "render_d0" if sec == "d0" else "render_body"}
                try:
                    t.cache.invalidate(key, **kw)
                except Exception as e:
                    res.violate("invalidate-raises", "%s: invalidate(%r) raised %s: %s" % (what, key, type(e).__name__, e), replay_case=rc)
                    return
                m.store.pop(key, None)
                qstore.pop(key, None)
                flags.add(("inv", i, key))
        elif k < 0.93:
            if backend == "rec":
                key = "user-%d" % r.randrange(3)
                val = "V%d" % step
                nlog = len(Rec.log)
                direct = {"opt": "direct"} if r.random() < 0.5 else {}
                t.cache.set(key, val, **direct)
                # the programmatic interface: the Template's cache arguments overridden by what the call gives
                sets = [kw for op, cid, k2, kw in Rec.log[nlog:] if op == "set"]
                want = dict(spec["tpl_args"], **direct)
                if len(sets) != 1 or {k2: v for k2, v in sets[0].items() if k2 != "context"} != want:
                    res.violate("set-kwargs", "%s: cache.set(%r, ..., **%r) reached the backend with %r, expected %r" % (what, key, direct, sets, want), replay_case=rc)
                got = t.cache.get(key)
                if got != val:
                    res.violate("set-get", "%s: cache.get(%r) = %r after set(%r)" % (what, key, got, val), replay_case=rc)
                for j, t2 in enumerate(tpls):
                    if j != i and not punct and t2.cache.get(key) == val and not any(f == ("set", j, key) for f in flags):
                        res.violate("entry-served-to-other-template", "%s: key %r set on %s is visible through %s" % (what, key, t.uri, t2.uri), replay_case=rc)
                flags.add(("set", i, key))
        elif k < 0.96 or punct or backend == "dogpile":
            m.enabled = not m.enabled
            qmodels[i].enabled = m.enabled
            t.cache_enabled = m.enabled
        else:
            # the template is edited and compiled again under the same URI (what TemplateLookup does when the file
            # changed): it is another template, none of the entries of the one it replaces may be served to it.
            # (the dogpile plugin lives outside Mako and does not look at Cache.starttime: not exercised)
            impl, cargs, dog = build[i]
            spec2 = copy.deepcopy(spec)
            spec2["tag"] = spec["tag"] + "r"
            text2 = emit(spec2, dog)
            at = text2.index("<%block" + attrs(spec2["sec"]["anon"], "anon", dog) + ">AN:")
            spec2["anon_key"] = "__M_anon_%d_%d" % (text2.count("\n", 0, at) + 1, at - text2.rfind("\n", 0, at))
            try:
                t2 = _st["Template"](text2, uri=t.uri, cache_impl=impl, cache_args=cargs)
            except Exception as e:
                res.violate("compile-raises", "template %r raised %s: %s" % (text2, type(e).__name__, e), replay_case=rc)
                return
            t2.cache_enabled = m.enabled
            m2 = Model(spec2)
            m2.enabled, m2.ticks = m.enabled, m.ticks
            q2 = Model(spec2, qstore)
            q2.enabled, q2.ticks = m.enabled, qmodels[i].ticks
            tpls[i], specs[i], models[i], qmodels[i] = t2, spec2, m2, q2
            res.count("recompiles_under_the_same_uri")
    if "hit" in flags and "reexec" in flags:
        res.nontrivial("c17", backend, [tt.source for tt in tpls], case["index"], case["j"])
    if res.sample is None:
        res.sample = {"backend": backend, "uris": [tt.uri for tt in tpls], "template": tpls[0].source[:400]}


def check_invalidate(res, spec, m, name, key, entries, backend, what, rc):
    """invalidate_body / invalidate_def / invalidate_closure reach the backend with the key of the section and the same
    arguments its entries are created with (once a render has made them known; before that, the Template's)"""
    if backend != "rec":
        return
    calls = [(k2, kw) for op, cid, k2, kw in entries if op == "invalidate"]
    res.count("invalidate_calls_checked")
    if [k2 for k2, _ in calls] != [key]:
        res.violate("invalidate-key", "%s: invalidating section %s reached the backend as %r, expected one invalidate(%r)" % (what, name, calls, key), replay_case=rc)
        return
    want = expected_kwargs(spec, name) if name in m.seen else dict(spec["tpl_args"])
    got = {k2: v for k2, v in calls[0][1].items() if k2 != "context"}
    if got != want:
        res.violate("invalidate-kwargs", "%s: invalidate(%r) for section %s received %r, its entries are created with %r (section rendered before: %s)" % (
            what, key, name, got, want, name in m.seen), replay_case=rc)


CALLABLE_SECTION = {"render_body": "page", "render_d0": "d0", "render_d1": "d1", "inner": "inner", "render_b0": "b0"}


def check_log(res, spec, t, entries, what, rc, m, rid=None):
    for op, cid, key, kw in entries:
        res.count("backend_calls_logged")
        if op != "get_or_create" or cid != t.cache.id:
            continue
        ctx = kw.pop("context", None)
        if Rec.pass_context and ctx is None:
            res.violate("context-not-passed", "%s: backend asked for the context but get_or_create(%r) got none" % (what, key), replay_case=rc)
        if Rec.pass_context and ctx is not None and rid is not None and ctx.get("rid") != rid:
            res.violate("stale-context-passed", "%s: get_or_create(%r) was handed the context of render %r, the current render is %r" % (what, key, ctx.get("rid"), rid), replay_case=rc)
        if not Rec.pass_context and ctx is not None:
            res.violate("context-passed-unasked", "%s: context passed although pass_context is False" % what, replay_case=rc)
        # which section does this key belong to?
        name = None
        if key in ("render_d0", "d0-1", "d0-2"):
            name = "d0"
        elif key in ("render_body", "pk0", "pk1"):
            name = "page"
        elif key in ("render_d1", "render_b0", "inner"):
            name = {"render_d1": "d1", "render_b0": "b0", "inner": "inner"}[key]
        elif key.startswith("__M_anon"):
            name = "anon"
        else:
            res.violate("unknown-cache-key", "%s: backend saw key %r" % (what, key), replay_case=rc)
            continue
        exp = expected_kwargs(spec, name)
        res.count("kwargs_checked")
        if kw != exp:
            res.violate("backend-kwargs", "%s: section %s key %r: backend received %r, expected %r (template args %r, page args %r, section args %r)"
                        % (what, name, key, kw, exp, spec["tpl_args"], spec["sec"]["page"]["args"], spec["sec"][name]["args"]), replay_case=rc)
        if "timeout" in kw and type(kw["timeout"]) is not int:
            res.violate("timeout-not-int", "%s: timeout %r" % (what, kw["timeout"]), replay_case=rc)


BACKENDS = ["rec", "rec", "rec", "beaker-memory", "beaker-file", "dogpile"]


def gen_cases(tier, seed):
    # (not dogpile: its Mako plugin, which lives outside Mako, keys a region by the section key alone and ignores
    # Cache.id, so same-named sections of two templates sharing a region collide there by design of that plugin)
    for b in ("rec", "beaker-memory", "beaker-file"):
        yield {"kind": "inherit", "backend": b}
    for b in ("rec", "beaker-memory", "beaker-file"):
        yield {"kind": "raising", "backend": b}
    for b in ("rec", "beaker-memory", "beaker-file"):
        yield {"kind": "include", "backend": b}
    for b in ("rec", "beaker-memory"):
        yield {"kind": "anon-positions", "backend": b}
    # ("plain" is the dictionary backend that Mako ships in mako.testing.fixtures)
    for b in ("rec", "beaker-memory", "beaker-file", "plain"):
        yield {"kind": "empty-output", "backend": b}
    for b in ("rec", "beaker-memory", "beaker-file"):
        yield {"kind": "module-template", "backend": b}
    for b in ("rec", "beaker-memory"):
        yield {"kind": "nested-buffers", "backend": b}
    yield {"kind": "legacy-arguments"}
    n = 4000 if tier == "quick" else 40000
    per = 10
    for i in range(n // per):
        yield {"kind": "batch", "seed": seed, "index": i, "n": per, "backend": BACKENDS[i % len(BACKENDS)]}


def run_inherit(case, res):
    """cached sections of an INHERITED template: they belong to the base template's cache, whichever child is
    rendered - executed once for all children, invalidated through the base's cache, never stored under a child"""
    L = _st["TemplateLookup"]
    backend = case["backend"]
    _st["counter"] += 1
    uid = "%d_%d" % (os.getpid(), _st["counter"])
    impl, base_args, dog = make_backend(backend, uid + "_inh")
    Rec.store.clear()
    Rec.created.clear()
    del Rec.log[:]
    Rec.pass_context = False
    reg = ' cache_region="%s"' % dog if dog else ""
    lk = L(cache_impl=impl, cache_args=dict(base_args))
    pre = "/i%s/" % uid
    lk.put_string(pre + "base.html",
                  '<%%def name="hdr()" cached="True"%s>H[${tick(\'hdr\')}|${x}]</%%def>'
                  'BASE(${hdr()}${next.body()})<%%block name="foot" cached="True"%s>F[${tick(\'foot\')}|${x}]</%%block>' % (reg, reg))
    lk.put_string(pre + "c1.html", '<%%inherit file="base.html"/>C1[${tick(\'c1\')}]<%%def name="own()" cached="True"%s>O1[${tick(\'own1\')}]</%%def>${own()}' % reg)
    lk.put_string(pre + "c2.html", '<%%inherit file="base.html"/>C2[${tick(\'c2\')}]<%%def name="own()" cached="True"%s>O2[${tick(\'own2\')}]</%%def>${own()}' % reg)
    ticks = {}

    def tick(n):
        ticks[n] = ticks.get(n, 0) + 1
        return ticks[n]

    def render(name, x):
        return lk.get_template(pre + name).render_unicode(tick=tick, x=x)

    steps = [
        ("c1.html", "x1", "BASE(H[1|x1]C1[1]O1[1])F[1|x1]"),
        ("c2.html", "x2", "BASE(H[1|x1]C2[1]O2[1])F[1|x1]"),      # the base's sections are replayed, the child's own def is its own
        ("c1.html", "x3", "BASE(H[1|x1]C1[2]O1[1])F[1|x1]"),
        ("inv-hdr", None, None),
        ("c2.html", "x4", "BASE(H[2|x4]C2[2]O2[1])F[1|x1]"),      # after invalidate_def on the BASE's cache the header runs again
        ("c1.html", "x5", "BASE(H[2|x4]C1[3]O1[1])F[1|x1]"),
        ("inv-child-own", None, None),
        ("c1.html", "x6", "BASE(H[2|x4]C1[4]O1[2])F[1|x1]"),      # invalidating c1's own def leaves c2's and the base's alone
        ("c2.html", "x7", "BASE(H[2|x4]C2[3]O2[1])F[1|x1]"),
    ]
    for name, x, exp in steps:
        res.evaluations += 1
        what = "backend=%s inherited cached sections, step %s" % (backend, name)
        try:
            if name == "inv-hdr":
                lk.get_template(pre + "base.html").cache.invalidate_def("hdr")
                continue
            if name == "inv-child-own":
                lk.get_template(pre + "c1.html").cache.invalidate_def("own")
                continue
            out = render(name, x)
        except Exception as e:
            res.violate("inherit-cache-raises", "%s: %s: %s" % (what, type(e).__name__, e))
            return
        res.count("inherited_cached_renders")
        if out != exp:
            res.violate("inherited-cached-output", "%s (x=%s) gave %r, expected %r" % (what, x, out, exp), witness="cached def/block of an inherited base rendered through two children")
            return
    if backend == "rec":
        base_id = lk.get_template(pre + "base.html").cache.id
        for op, cid, key, kw in Rec.log:
            if key in ("render_hdr", "render_foot") and cid != base_id:
                res.violate("entry-under-wrong-template", "backend call %s(%r) was made under cache id %r, the section belongs to %r" % (op, key, cid, base_id))
                break
    res.nontrivial("c17-inherit", backend)


def run_include(case, res):
    """cached sections of an INCLUDED template belong to the included template's own cache - with or without an
    include_error_handler on the lookup: same-named sections of includer and included never mix, and each
    template's invalidate_def reaches its own entries only"""
    L = _st["TemplateLookup"]
    backend = case["backend"]
    for handler in (None, "returns-false", "returns-true"):
        _st["counter"] += 1
        uid = "%d_%d" % (os.getpid(), _st["counter"])
        impl, base_args, dog = make_backend(backend, uid + "_inc")
        Rec.store.clear()
        Rec.created.clear()
        del Rec.log[:]
        Rec.pass_context = False
        kw = {}
        if handler:
            kw["include_error_handler"] = (lambda context, error: handler == "returns-true")
        lk = L(cache_impl=impl, cache_args=dict(base_args), **kw)
        pre = "/n%s/" % uid
        lk.put_string(pre + "outer.html", '<%def name="box()" cached="True">[outer box ${tick(\'ob\')}|${x}]</%def><%namespace name="lib" file="inner.html"/>${box()}|<%include file="inner.html"/>|${box()}|${lib.box()}${lib.item()}')
        lk.put_string(pre + "inner.html", '<%def name="box()" cached="True">[inner box ${tick(\'ib\')}|${x}]</%def>'
                                          '<%def name="item()" cached="True">[inner item ${tick(\'ii\')}|${x}]</%def>${box()}${item()}')
        ticks = {}

        def tick(n):
            ticks[n] = ticks.get(n, 0) + 1
            return ticks[n]

        steps = [
            # (the included template's sections are reached twice: through <%include> and through a <%namespace>)
            ("render", "x1", "[outer box 1|x1]|[inner box 1|x1][inner item 1|x1]|[outer box 1|x1]|[inner box 1|x1][inner item 1|x1]"),
            ("render", "x2", "[outer box 1|x1]|[inner box 1|x1][inner item 1|x1]|[outer box 1|x1]|[inner box 1|x1][inner item 1|x1]"),
            ("inv-inner-box", None, None),
            ("render", "x3", "[outer box 1|x1]|[inner box 2|x3][inner item 1|x1]|[outer box 1|x1]|[inner box 2|x3][inner item 1|x1]"),
            ("inv-outer-box", None, None),
            ("render", "x4", "[outer box 2|x4]|[inner box 2|x3][inner item 1|x1]|[outer box 2|x4]|[inner box 2|x3][inner item 1|x1]"),
            ("render-inner", "x5", "[inner box 2|x3][inner item 1|x1]"),
        ]
        for name, x, exp in steps:
            res.evaluations += 1
            what = "backend=%s include_error_handler=%s, cached sections of an included template, step %s" % (backend, handler, name)
            try:
                if name == "inv-inner-box":
                    lk.get_template(pre + "inner.html").cache.invalidate_def("box")
                    continue
                if name == "inv-outer-box":
                    lk.get_template(pre + "outer.html").cache.invalidate_def("box")
                    continue
                out = lk.get_template(pre + ("inner.html" if name == "render-inner" else "outer.html")).render_unicode(tick=tick, x=x)
            except Exception as e:
                res.violate("include-cache-raises", "%s: %s: %s" % (what, type(e).__name__, e))
                break
            res.count("included_cached_renders")
            if out != exp:
                res.violate("included-cached-output", "%s (x=%s) gave %r, expected %r" % (what, x, out, exp),
                            witness="cached defs of the same name in an including and an included template")
                break
        if backend == "rec":
            ids = {u: lk.get_template(pre + u).cache.id for u in ("outer.html", "inner.html")}
            for op, cid, key, kw2 in Rec.log:
                if key == "render_item" and cid != ids["inner.html"]:
                    res.violate("entry-under-wrong-template", "backend call %s(%r) was made under cache id %r, the section belongs to %r (include_error_handler=%s)"
                                % (op, key, cid, ids["inner.html"], handler))
                    break
        res.nontrivial("c17-include", backend, handler)


def run_anonymous_positions(case, res):
    """cached anonymous blocks are keyed by their internal name, which is made from the block's line and column:
    two of them in different callables of one template at positions whose digits read alike (line 1 col 18 /
    line 11 col 8, ...) are still two sections, each executed once and replayed with its own output"""
    T = _st["Template"]
    backend = case["backend"]
    for l1, c1, l2, c2 in ((1, 18, 11, 8), (2, 31, 23, 1), (1, 21, 12, 1), (3, 18, 31, 8), (1, 110, 11, 10), (1, 18, 1, 90), (4, 20, 5, 20)):
        _st["counter"] += 1
        uid = "%d_%d" % (os.getpid(), _st["counter"])
        impl, base_args, dog = make_backend(backend, uid + "_anon")
        Rec.store.clear()
        reg = ' cache_region="%s"' % dog if dog else ""
        line_a = '<%def name="a()">' + "x" * (c1 - 18) + '<%block cached="True"' + reg + ">from-a${tick('a')}</%block></%def>"
        if l2 == l1:
            # both on one line: the body's block stands further right
            pad = c2 - 1 - len(line_a)
            lines = [""] * (l1 - 1) + [line_a + "y" * pad + '<%block cached="True"' + reg + ">from-body${tick('b')}</%block>${a()}"]
        else:
            lines = [""] * (l1 - 1) + [line_a] + [""] * (l2 - l1 - 1) + ["y" * (c2 - 1) + '<%block cached="True"' + reg + ">from-body${tick('b')}</%block>${a()}"]
        text = "\n".join(lines)
        ticks = {}

        def tick(n):
            ticks[n] = ticks.get(n, 0) + 1
            return ticks[n]

        res.evaluations += 1
        res.count("anonymous_position_templates")
        what = "backend=%s, cached anonymous blocks at line %d col %d (in a def) and line %d col %d (in the body)" % (backend, l1, c1, l2, c2)
        try:
            t = T(text, cache_impl=impl, cache_args=dict(base_args), uri="/anon_%s.html" % uid)
            names = sorted(n for n in dir(t.module) if n.startswith("render___M_anon"))
            outs = ["".join(t.render_unicode(tick=tick).split()) for _ in range(2)]
        except Exception as e:
            res.violate("anonymous-blocks-collide", "%s: %s: %s" % (what, type(e).__name__, e))
            continue
        exp = "x" * (c1 - 18) * 0 + "y" * (max(0, c2 - 1 - len(line_a)) if l2 == l1 else c2 - 1) + "from-body1from-a1"
        if l2 == l1:
            exp = "y" * (c2 - 1 - len(line_a)) + "from-body1" + "x" * (c1 - 18) + "from-a1"
        else:
            exp = "y" * (c2 - 1) + "from-body1" + "x" * (c1 - 18) + "from-a1"
        if outs != [exp, exp] or ticks != {"a": 1, "b": 1}:
            res.violate("anonymous-blocks-collide", "%s: two renders gave %r, expected twice %r; bodies executed %r; block callables %r" % (what, outs, exp, ticks, names),
                        witness="two cached anonymous blocks whose line/column digits read alike")
        res.nontrivial("anon-pos", backend, l1, c1, l2, c2)


def run_empty_output(case, res):
    """a cached section whose output is the EMPTY string has a value like any other: its body is executed once and
    '' is what is replayed - also when a later execution would have written something"""
    T = _st["Template"]
    backend = case["backend"]
    shapes = [
        ("def with a code-only body", '<%def name="e()" cached="True"@REG@><% tick("e") %></%def>[${e()}${e()}]', ["[]", "[]", "[]"], {"e": 1}),
        ("buffered def with a code-only body", '<%def name="e()" cached="True" buffered="True"@REG@><% tick("e") %></%def>[${e()}${e()}]', ["[]", "[]", "[]"], {"e": 1}),
        ("block that is empty when first rendered", '[<%block name="c" cached="True"@REG@>${"hello " + who if tick("c") > 1 else ""}</%block>]', ["[]", "[]", "[]"], {"c": 1}),
        ("anonymous block that is empty when first rendered", '[<%block cached="True"@REG@>${"hello " + who if tick("c") > 1 else ""}</%block>]', ["[]", "[]", "[]"], {"c": 1}),
        ("page with a code-only body", '<%page cached="True"@REG@/><% tick("p") %>', ["", "", ""], {"p": 1}),
        ("def keyed by its argument, empty for one key only", '<%def name="k(a)" cached="True" cache_key="k-${str(a)}"@REG@>${a * tick("k" + str(a))}</%def>[${k(0)}|${k(3)}|${k(0)}]',
         ["[0|3|0]", "[0|3|0]", "[0|3|0]"], {"k0": 1, "k3": 1}),
        ("def whose output is empty text for one key", '<%def name="k(a)" cached="True" cache_key="k-${str(a)}"@REG@>${"x" * a}<% tick("k" + str(a)) %></%def>[${k(0)}|${k(2)}|${k(0)}]',
         ["[|xx|]", "[|xx|]", "[|xx|]"], {"k0": 1, "k2": 1}),
    ]
    for name, text, outs_exp, ticks_exp in shapes:
        _st["counter"] += 1
        uid = "%d_%d" % (os.getpid(), _st["counter"])
        if backend == "plain":
            if not _st.get("plain"):
                res.count("plain_backend_not_importable")
                return
            impl, base_args, dog = "plain", {}, None
        else:
            impl, base_args, dog = make_backend(backend, uid + "_empty")
        Rec.store.clear()
        Rec.created.clear()
        ticks = {}

        def tick(n):
            ticks[n] = ticks.get(n, 0) + 1
            return ticks[n]

        res.evaluations += 1
        res.count("empty_output_templates")
        what = "backend=%s, %s" % (backend, name)
        src = text.replace("@REG@", ' cache_region="%s"' % dog if dog else "")
        try:
            t = T(src, cache_impl=impl, cache_args=dict(base_args), uri="/empty_%s.html" % uid)
            outs = [t.render_unicode(tick=tick, who="bob") for _ in range(3)]
        except Exception as e:
            res.violate("empty-output-not-replayed", "%s: template %r: %s: %s" % (what, src, type(e).__name__, e))
            continue
        if outs != outs_exp or ticks != ticks_exp:
            res.violate("empty-output-not-replayed", "%s: template %r rendered %r on three renders, expected %r; bodies executed %r, expected %r" % (what, src, outs, outs_exp, ticks, ticks_exp),
                        witness="a cached section whose stored output is ''")
        res.nontrivial("empty-output", backend, name)


def run_module_template(case, res):
    """the generated module wrapped as ModuleTemplate (with the backend's arguments given to the wrapper): its cached
    sections are executed once and replayed, like those of the Template the module came from"""
    from mako.template import ModuleTemplate

    T = _st["Template"]
    backend = case["backend"]
    _st["counter"] += 1
    uid = "%d_%d" % (os.getpid(), _st["counter"])
    impl, base_args, dog = make_backend(backend, uid + "_mt")
    Rec.store.clear()
    Rec.created.clear()
    reg = ' cache_region="%s"' % dog if dog else ""
    src = ('<%def name="c(a)" cached="True" cache_key="c-${str(a)}"' + reg + '>C${a}:${tick("c")}</%def><%block name="b" cached="True"' + reg + '>B:${tick("b")}</%block>'
           '[${c(1)}${c(2)}${c(1)}]')
    ticks = {}

    def tick(n):
        ticks[n] = ticks.get(n, 0) + 1
        return ticks[n]

    for route in ("ModuleTemplate", "ModuleTemplate.get_def"):
        ticks.clear()
        res.evaluations += 1
        res.count("module_template_cached_renders")
        what = "backend=%s, %s over the module of a template with a cached def and a cached block" % (backend, route)
        try:
            mod = T(src, uri="/mt_%s_%s.html" % (uid, route[-3:])).module
            mt = ModuleTemplate(mod, cache_impl=impl, cache_args=dict(base_args))
            if route == "ModuleTemplate":
                outs = [mt.render_unicode(tick=tick) for _ in range(2)]
                want, tw = ["B:1[C1:1C2:2C1:1]"] * 2, {"b": 1, "c": 2}
            else:
                outs = [mt.get_def("c").render_unicode(7, tick=tick) for _ in range(2)]
                want, tw = ["C7:1"] * 2, {"c": 1}
        except Exception as e:
            res.violate("module-template-cached-section", "%s: %s: %s" % (what, type(e).__name__, e), witness="ModuleTemplate with a cached section")
            continue
        if outs != want or ticks != tw:
            res.violate("module-template-cached-section", "%s: two renders gave %r, expected %r; bodies executed %r, expected %r" % (what, outs, want, ticks, tw))
        res.nontrivial("module-template", backend, route)


NESTED_CACHED = [
    ("captured", '<%def name="o()"><%def name="inner()" @C@>INNER<% tick("i") %></%def>[${capture(inner)}]</%def>${o()}'),
    ("in the body of a call to a buffered def", '<%def name="w()" buffered="True">(${caller.body()})</%def><%def name="o()"><%def name="inner()" @C@>INNER<% tick("i") %></%def>'
                                                '<%call expr="w()">${inner()}</%call></%def>${o()}'),
    ("from a buffered sibling def", '<%def name="o()"><%def name="inner()" @C@>INNER<% tick("i") %></%def><%def name="sib()" buffered="True">{${inner()}}</%def><${sib()}></%def>${o()}'),
    ("from a filtered sibling def", '<%def name="o()"><%def name="inner()" @C@>INNER<% tick("i") %></%def><%def name="sib()" filter="trim">  {${inner()}}  </%def><${sib()}></%def>${o()}'),
    ("inside a call body, captured", '<%def name="w()">(${caller.body()})</%def><%call expr="w()"><%def name="inner()" @C@>INNER<% tick("i") %></%def>[${capture(inner)}]</%call>'),
    ("anonymous cached block inside a buffered def", '<%def name="o()" buffered="True">A<%block @C@>BLK<% tick("i") %></%block>Z</%def>[${o()}]'),
    ("top-level cached def captured", '<%def name="inner()" @C@>INNER<% tick("i") %></%def>[${capture(inner)}]{${inner()}}'),
]


def run_nested_cached_buffers(case, res):
    """a cached section called while ANOTHER buffer is on top (capture, the body of a call to a buffered def, a
    buffered or filtered sibling): its output goes where the uncached section's output goes, and is replayed there"""
    T = _st["Template"]
    backend = case["backend"]
    for name, text in NESTED_CACHED:
        _st["counter"] += 1
        uid = "%d_%d" % (os.getpid(), _st["counter"])
        impl, base_args, dog = make_backend(backend, uid + "_nb")
        Rec.store.clear()
        Rec.created.clear()
        ticks = {}

        def tick(n):
            ticks[n] = ticks.get(n, 0) + 1
            return ""

        res.evaluations += 1
        res.count("nested_cached_buffer_templates")
        what = "backend=%s, cached section %s" % (backend, name)
        try:
            want = T(text.replace(" @C@", "")).render_unicode(tick=tick)
            ticks.clear()
            t = T(text.replace("@C@", 'cached="True"' + (' cache_region="%s"' % dog if dog else "")), cache_impl=impl, cache_args=dict(base_args), uri="/nb_%s.html" % uid)
            outs = [t.render_unicode(tick=tick) for _ in range(3)]
        except Exception as e:
            res.violate("cached-output-in-wrong-buffer", "%s: %s: %s\n%s" % (what, type(e).__name__, e, text))
            continue
        if outs != [want] * 3 or ticks != {"i": 1}:
            res.violate("cached-output-in-wrong-buffer", "%s: template %r rendered %r, uncached it renders %r; body executed %r times" % (what, text, outs, want, ticks.get("i", 0)),
                        witness="cached section called below another buffer")
        res.nontrivial("nested-cached-buffer", backend, name)


def run_legacy_arguments(case, res):
    """the deprecated Template arguments cache_type / cache_dir / cache_url become cache_args of THAT template (type, dir,
    url), below its <%page> and section arguments - and of no other template built before or after it"""
    T = _st["Template"]
    Rec.store.clear()
    Rec.created.clear()
    src = '<%def name="c()" cached="True" cache_timeout="5">C</%def>${c()}'
    _st["counter"] += 1
    uid = "%d_%d" % (os.getpid(), _st["counter"])
    plan = [
        ("before", {}, {"timeout": 5}),
        ("legacy", {"cache_type": "ltype", "cache_dir": "/ldir", "cache_url": "lurl"}, {"type": "ltype", "dir": "/ldir", "url": "lurl", "timeout": 5}),
        ("after", {}, {"timeout": 5}),
        ("after-with-own-args", {"cache_args": {"type": "own"}}, {"type": "own", "timeout": 5}),
        ("legacy-again", {"cache_dir": "/other"}, {"dir": "/other", "timeout": 5}),
        ("last", {}, {"timeout": 5}),
    ]
    for name, kw, want in plan:
        del Rec.log[:]
        res.evaluations += 1
        res.count("legacy_argument_templates")
        what = "template %r built with %r (the %s of six templates built one after the other)" % (name, kw, name)
        try:
            t = T(src, cache_impl="rec", uri="/legacy_%s_%s.html" % (uid, name.replace("-", "_")), **kw)
            out = t.render_unicode()
        except Exception as e:
            res.violate("legacy-cache-arguments", "%s: %s: %s" % (what, type(e).__name__, e))
            continue
        got = [e[3] for e in Rec.log if e[0] == "get_or_create"]
        if out != "C" or got != [want]:
            res.violate("legacy-cache-arguments", "%s: rendered %r, the backend received %r, expected %r" % (what, out, got, [want]),
                        witness="deprecated cache_type/cache_dir/cache_url on one template, other templates in the same process")
    res.nontrivial("legacy-arguments")


def run_raising(case, res):
    """a cached section whose body raises: the exception propagates, nothing is stored for its key, and the body runs
    again on the next render"""
    T = _st["Template"]
    backend = case["backend"]
    _st["counter"] += 1
    uid = "%d_%d" % (os.getpid(), _st["counter"])
    impl, base_args, dog = make_backend(backend, uid + "_rz")
    Rec.store.clear()
    Rec.created.clear()
    del Rec.log[:]
    Rec.pass_context = False
    reg = ' cache_region="%s"' % dog if dog else ""
    forms = {
        "def": '<%%def name="rb()" cached="True"%s>head ${maybe()} tail</%%def>[${rb()}]' % reg,
        "block": '[<%%block name="rb" cached="True"%s>head ${maybe()} tail</%%block>]' % reg,
        "page": '<%%page cached="True"%s/>[head ${maybe()} tail]' % reg,
        "nested": '<%%def name="o()"><%%def name="rb()" cached="True"%s>head ${maybe()} tail</%%def>${rb()}</%%def>[${o()}]' % reg,
        "buffered-def": '<%%def name="rb()" cached="True" buffered="True"%s>head ${maybe()} tail</%%def>[${rb()}]' % reg,
    }
    for form, text in forms.items():
        t = T(text, uri="/rz%s/%s.html" % (uid, form), cache_impl=impl, cache_args=dict(base_args))
        state = {"armed": True, "runs": 0}

        class Planted(Exception):
            pass

        def maybe():
            state["runs"] += 1
            if state["armed"]:
                raise Planted("planted")
            return "ok%d" % state["runs"]

        what = "backend=%s, cached %s whose body raises" % (backend, form)
        res.evaluations += 1
        res.count("raising_cached_bodies")
        try:
            out = t.render_unicode(maybe=maybe)
            res.violate("cached-body-exception-swallowed", "%s: the first render returned %r instead of raising" % (what, out))
        except Planted:
            pass
        except Exception as e:
            res.violate("cached-body-wrong-exception", "%s: raised %s: %s" % (what, type(e).__name__, e))
        state["armed"] = False
        try:
            out2 = t.render_unicode(maybe=maybe)
            out3 = t.render_unicode(maybe=maybe)
        except Exception as e:
            res.violate("cached-body-after-failure", "%s: the render after the failed one raised %s: %s" % (what, type(e).__name__, e))
            continue
        if out2 != "[head ok2 tail]" or out3 != out2 or state["runs"] != 2:
            res.violate("cached-body-after-failure", "%s: after a failed first render the next two renders gave %r and %r with %d body runs; expected '[head ok2 tail]' twice with 2 runs" % (
                what, out2, out3, state["runs"]), witness="cached section whose first body execution raised")
    res.nontrivial("c17-raising", backend)


def run_case(case):
    res = common.CaseResult()
    if case["kind"] == "raising":
        run_raising(case, res)
        return res
    if case["kind"] == "inherit":
        run_inherit(case, res)
        return res
    if case["kind"] == "include":
        run_include(case, res)
        return res
    if case["kind"] == "anon-positions":
        run_anonymous_positions(case, res)
        return res
    if case["kind"] == "empty-output":
        run_empty_output(case, res)
        return res
    if case["kind"] == "module-template":
        run_module_template(case, res)
        return res
    if case["kind"] == "nested-buffers":
        run_nested_cached_buffers(case, res)
        return res
    if case["kind"] == "legacy-arguments":
        run_legacy_arguments(case, res)
        return res
    if case["kind"] == "batch":
        for j in range(case["n"]):
            run_history(dict(case, kind="one", j=j), res)
    else:
        run_history(case, res)
    return res

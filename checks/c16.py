"""C16 - concurrent lookups and renders behave like some sequential execution.

Deterministic scheduler (mk/sched.py): managed threads run only when granted the turn; scheduling points sit
at lock acquire/release (TemplateLookup._mutex is replaced by a scheduler-aware lock), os.stat,
os.path.isfile, every access of the lookup's collection and Template construction (coarse points), and
at every executed line of mako/lookup.py and mako/util.py - for renders also runtime.py, cache.py,
template.py - through sys.monitoring LINE events (line-level).  Exploration: exhaustive DFS over all
interleavings at the coarse points for 2 threads (and 3 threads with preemption bound 2), preemption-bounded
DFS and seeded random-priority schedules at line level, and free-running threads with a tiny switch
interval as a cross-check.  Oracle per call: a complete Template showing a version no older than the
file's version when the call started; only documented exceptions; nobody left blocked (deadlock detector);
simultaneous first requests construct once and share the object; bound at quiescence; concurrent renders
equal their solo output.
"""
import os
import shutil
import tempfile
import threading

from mk import common, sched, vclock

PROPERTY = "C16"
LEVEL = "exploration"
EXHAUSTIVE = {"quick": True, "thorough": True}
RULE = (
    "14 scenarios {same URI first request x2/x3, different URIs, modify+get while others get, broken file + get, "
    "fix + get, delete + get, collection_size=1 churn (2 and 3 threads), concurrent renders of one fresh Template "
    "with includes / namespace / inheritance / cached def}; (1) coarse points (lock acquire/release, os.stat, "
    "isfile, collection get/set/pop, Template construction begin/end, operation start): DFS over every schedule "
    "with at most b preemptions - quick b=3 for the one-get-per-thread scenarios and 2-3 for the larger ones, "
    "thorough: ALL interleavings (no bound) for the one-get scenarios, b+1 for the larger; (2) line level (every "
    "executed line of lookup.py/util.py): every schedule with <=1 preemption up to a per-scenario cap, plus "
    "random-priority schedules; (3) free-running threads with a 1 microsecond switch interval. distinct = "
    "distinct interleavings (decision sequences) per scenario; non-trivial = a schedule with at least one context "
    "switch between two operations on the shared lookup."
)
RULE += ' added since: scenario modify-first, quiescence oracle (after all threads finish one more get must return a template of the newest source), cached defs with two cache types recorded by the backend, module-namespace race, render templates under /sub with relative URIs and root-level decoys. three free-running renders racing for the first use of a cached def / page / block with the Beaker backend. a modification of the referred-to template injected at each get_template call made during a render (inherit / include / namespace). import= names read in the body and in a nested def of the concurrently rendered template. two renders held inside the decorator of a top-level def at the same time.'
ASSUMPTIONS = [
    "single bytecodes / dict operations are atomic (GIL builds); interleavings inside C-level operations are not explored",
    "file modifications are made atomic with respect to the scheduler (content and mtime change together)",
    "virtual clock as in C14",
]
MIN_NONTRIVIAL = 200
REQUIRED_COUNTERS = ["schedules", "coarse_schedules_exhaustive", "line_level_schedules", "line_events", "context_switches", "lock_contentions", "first_request_sharing_checked", "render_schedules", "free_running_runs", "beaker_first_use_races"]
REQUIRED_COUNTERS += ["render_vs_modification_points"]
REQUIRED_COUNTERS += ["decorator_rendezvous_runs"]
REQUIRED_COUNTERS += ["loop_rendezvous_runs", "template_module_schedules"]
RULE += "; a second bound-1 exploration of two concurrent renders whose fine-grained switch points are the lines of mako/template.py only"
RULE += "; two renders held in lock-step inside nested % for loops of different shapes (rendezvous at every iteration), compared with their solo output"
RULE += "; the concurrently rendered template holds nested % for loops whose lengths differ from render to render and print loop.index / loop.parent.index / loop.first / loop.last beside the plain loop variables"
SHARDS = {"quick": 32, "thorough": 64}

_st = {"sched": None}


def setup_worker():
    import mako.lookup
    import mako.runtime
    import mako.cache
    import mako.template
    import mako.util
    from mako import exceptions

    clock = vclock.install(vclock.Clock())
    _st.update(clock=clock, exceptions=exceptions, lookup_mod=mako.lookup, util=mako.util, constructions={}, hook=sched.LineHook(),
               mods_lookup=[mako.lookup, mako.util], mods_render=[mako.runtime, mako.cache, mako.util, mako.lookup],
               tmp=tempfile.mkdtemp(prefix="c16-"), n=0, Template=mako.template.Template, TemplateLookup=mako.lookup.TemplateLookup)
    real_stat, real_isfile = os.stat, os.path.isfile

    def stat(*a, **kw):
        s = _st["sched"]
        if s is not None:
            s.point("os.stat")
        return real_stat(*a, **kw)

    def isfile(p):
        s = _st["sched"]
        if s is not None:
            s.point("isfile")
        return real_isfile(p)

    # only the names as seen from mako.lookup are replaced (the lookup module refers to os.stat / os.path.isfile)
    class _Path:
        def __getattr__(self, k):
            return isfile if k == "isfile" else getattr(os.path, k)

    class _Os:
        path = _Path()

        def __getattr__(self, k):
            return stat if k == "stat" else getattr(os, k)

    mako.lookup.os = _Os()
    RealTemplate = mako.lookup.Template

    def CountingTemplate(*a, **kw):
        s = _st["sched"]
        uri = kw.get("uri")
        if s is not None:
            s.point("Template.begin")
        _st["constructions"][uri] = _st["constructions"].get(uri, 0) + 1
        t = RealTemplate(*a, **kw)
        if s is not None:
            s.point("Template.end")
        return t

    mako.lookup.Template = CountingTemplate

    class SDict(dict):
        def __getitem__(self, k):
            s = _st["sched"]
            if s is not None:
                s.point("collection.get")
            return dict.__getitem__(self, k)

        def __setitem__(self, k, v):
            s = _st["sched"]
            if s is not None:
                s.point("collection.set")
            dict.__setitem__(self, k, v)

        def pop(self, *a):
            s = _st["sched"]
            if s is not None:
                s.point("collection.pop")
            return dict.pop(self, *a)

    class SLRU(mako.util.LRUCache):
        def __getitem__(self, k):
            s = _st["sched"]
            if s is not None:
                s.point("collection.get")
            return mako.util.LRUCache.__getitem__(self, k)

        def __setitem__(self, k, v):
            s = _st["sched"]
            if s is not None:
                s.point("collection.set")
            mako.util.LRUCache.__setitem__(self, k, v)

        def pop(self, *a):
            s = _st["sched"]
            if s is not None:
                s.point("collection.pop")
            return dict.pop(self, *a)

    _st.update(SDict=SDict, SLRU=SLRU)
    import atexit

    atexit.register(lambda: shutil.rmtree(_st["tmp"], ignore_errors=True))


# ------------------------------------------------------------------ world
class World:
    def __init__(self, csize=-1):
        _st["n"] += 1
        self.dir = os.path.join(_st["tmp"], "w%d" % _st["n"])
        os.makedirs(self.dir)
        self.versions = {}
        self.broken = set()
        self.clock = _st["clock"]
        self.clock.now = vclock.Clock.BASE + 100
        self.lookup = _st["TemplateLookup"](directories=[self.dir], collection_size=csize)
        self.lookup._collection = (_st["SDict"]() if csize == -1 else _st["SLRU"](csize))
        self.csize = csize
        _st["constructions"].clear()

    def write(self, uri, broken=False):
        v = self.versions.get(uri, 0) + 1
        p = os.path.join(self.dir, uri.lstrip("/"))
        tmp = p + ".tmp"
        with open(tmp, "w") as f:
            f.write("%s#%d%s" % (uri, v, "\n${ unterminated" if broken else ""))
        os.utime(tmp, (self.clock.now, self.clock.now))
        os.replace(tmp, p)
        self.mtimes = getattr(self, "mtimes", {})
        self.mtimes[(uri, v)] = self.clock.now
        self.versions[uri] = v
        (self.broken.add if broken else self.broken.discard)(uri)

    def delete(self, uri):
        try:
            os.remove(os.path.join(self.dir, uri.lstrip("/")))
        except OSError:
            pass
        self.versions[uri] = self.versions.get(uri, 0) + 1
        self.deleted = getattr(self, "deleted", set()) | {uri}

    def close(self):
        shutil.rmtree(self.dir, ignore_errors=True)


SCENARIOS = {
    # name: (setup, [thread op lists], collection_size, preemption bound at the coarse level: None = all interleavings)
    "same2": (["w /a"], [["g /a"], ["g /a"]], -1, None),
    "diff": (["w /a", "w /b"], [["g /a"], ["g /b"]], -1, None),
    "modify1": (["w /a", "g /a"], [["g /a"], ["m /a", "g /a"]], -1, None),
    # the first load of /a overlaps a modification: the second getter starts after the modification and must not be
    # handed the template the first one compiled from the old text
    "modify-first": (["w /a"], [["g /a"], ["m /a", "g /a"]], -1, None),
    "broken1": (["wb /a"], [["g /a"], ["g /a"]], -1, None),
    "fix1": (["wb /a"], [["g /a"], ["m /a", "g /a"]], -1, None),
    "delete1": (["w /a", "g /a"], [["g /a"], ["d /a", "g /a"]], -1, None),
    "lru1": (["w /a", "w /b"], [["g /a"], ["g /b"]], 1, None),
    "lru-modify": (["w /a", "w /b", "g /a"], [["g /b"], ["m /a", "g /a"]], 1, None),
    "same3": (["w /a"], [["g /a"], ["g /a"], ["g /a"]], -1, 2),
    "modify": (["w /a", "g /a"], [["g /a", "g /a"], ["m /a", "g /a"]], -1, 3),
    "modify3": (["w /a", "g /a"], [["g /a"], ["m /a", "g /a"], ["g /a"]], -1, 2),
    "broken": (["wb /a", "w /b"], [["g /a"], ["g /b", "g /a"]], -1, 3),
    "lru": (["w /a", "w /b", "w /c"], [["g /a", "g /b"], ["g /b", "g /c", "g /a"]], 1, 3),
    "lru3": (["w /a", "w /b"], [["g /a"], ["g /b"], ["g /a", "g /b"]], 1, 2),
}


def run_schedule(name, strategy, line_level, res, rc):
    """-> (Sched, strategy) after judging"""
    ex = _st["exceptions"]
    setup, threads, csize, _bound = SCENARIOS[name]
    w = World(csize)
    try:
        for op in setup:
            k, uri = op.split()
            if k in ("w", "wb"):
                w.write(uri, broken=(k == "wb"))
            elif k == "g":
                w.lookup.get_template(uri)
        _st["constructions"].clear()
        s = sched.Sched(strategy)
        w.lookup._mutex = sched.SchedLock(s)
        logs = []

        def make(ops, log):
            def fn():
                for op in ops:
                    k, uri = op.split()
                    if k == "g":
                        s.point("op.get")
                        start_v = w.versions.get(uri, 0)
                        start_broken = uri in w.broken
                        start_deleted = uri in getattr(w, "deleted", set())
                        try:
                            t = w.lookup.get_template(uri)
                            log.append(("get", uri, start_v, start_broken, start_deleted, "ok", t))
                        except sched.Abort:
                            raise
                        except Exception as e:
                            log.append(("get", uri, start_v, start_broken, start_deleted, "exc", e))
                    elif k == "m":
                        s.point("op.modify")
                        w.clock.advance(2)
                        w.write(uri)
                    elif k == "d":
                        s.point("op.delete")
                        w.delete(uri)
            return fn

        for ops in threads:
            log = []
            logs.append(log)
            s.spawn(make(ops, log))
        hook = _st["hook"]
        if line_level:
            hook.install(_st["mods_lookup"])
            hook.sched = s
        _st["sched"] = s
        try:
            ok = s.run(timeout=60)
        finally:
            _st["sched"] = None
            hook.sched = None
        res.evaluations += 1
        res.count("schedules")
        switches = sum(1 for a, b in zip(s.trace, s.trace[1:]) if a[0] != b[0])
        res.count("context_switches", switches)
        res.count("lock_contentions", sum(1 for _, tag in s.trace if tag == "blocked"))
        what = "scenario %s, schedule %r" % (name, [c for _, c, _ in strategy.decisions][:80])
        if s.deadlock:
            res.violate("deadlock", "%s: %s" % (what, s.deadlock), witness=name, replay_case=rc)
            return s
        if s.livelock or not ok:
            stuck = getattr(s, "stuck", None)
            res.stop = _st["stuck_seen"] = True   # (every further schedule would wait for the watchdog again)
            if stuck and stuck["same_position"]:
                res.violate("thread-left-blocked", "%s: thread %s holds the turn and stayed at one position for the whole watchdog period (every other thread is finished or parked "
                            "by the scheduler, so nothing can wake it): %s" % (what, stuck["thread"], " <- ".join(stuck["stack"][:5])), witness=name, replay_case=rc)
            else:
                res.violate("no-progress", "%s: threads did not finish (%d scheduling points)" % (what, s.npoints), replay_case=rc)
            return s
        for t in s.threads:
            if t.exc is not None:
                res.violate("thread-died", "%s: thread %d died with %r" % (what, t.idx, t.exc), replay_case=rc)
        # per-call oracle
        for ti, log in enumerate(logs):
            for _, uri, start_v, start_broken, start_deleted, kind, val in log:
                if kind == "exc":
                    if isinstance(val, ex.TemplateLookupException):
                        if not (uri in getattr(w, "deleted", set())):
                            res.violate("spurious-lookup-exception", "%s: thread %d get_template(%r) raised %r although the file exists throughout" % (what, ti, uri, val), replay_case=rc)
                    elif isinstance(val, (ex.SyntaxException, ex.CompileException)):
                        if not (start_broken or uri in w.broken or name in ("broken", "broken1", "fix1")):
                            res.violate("spurious-compile-error", "%s: thread %d get_template(%r) raised %r" % (what, ti, uri, val), replay_case=rc)
                    else:
                        res.violate("undocumented-exception", "%s: thread %d get_template(%r) raised %s: %s" % (what, ti, uri, type(val).__name__, val), witness=name, replay_case=rc)
                    continue
                t = val
                if getattr(t, "module", None) is None or not callable(getattr(t, "callable_", None)):
                    res.violate("incomplete-template", "%s: thread %d got an incompletely constructed Template for %r" % (what, ti, uri), replay_case=rc)
                    continue
                try:
                    out = t.render_unicode()
                    ruri, rv = out.split("#")
                    rv = int(rv)
                except Exception as e:
                    res.violate("unusable-template", "%s: thread %d: template for %r does not render: %r" % (what, ti, uri, e), replay_case=rc)
                    continue
                if ruri != uri:
                    res.violate("wrong-template", "%s: thread %d asked %r, got %r" % (what, ti, uri, out), replay_case=rc)
                if rv < start_v and not start_deleted and getattr(w, "mtimes", {}).get((uri, start_v), 0) >= t.module._modified_time + 1:
                    res.violate("stale-template", "%s: thread %d get_template(%r) started when the file was at version %d but returned version %d" % (what, ti, uri, start_v, rv), witness=name, replay_case=rc)
        # simultaneous first requests: one construction, one object
        if name in ("same2", "same3"):
            res.count("first_request_sharing_checked")
            objs = {id(v[6]) for log in logs for v in log if v[5] == "ok"}
            n = _st["constructions"].get("/a", 0)
            if n != 1 or len(objs) != 1:
                res.violate("compiled-more-than-once", "%s: %d Template constructions, %d distinct objects for simultaneous first requests of /a" % (what, n, len(objs)), witness=name, replay_case=rc)
        # bound at quiescence
        if csize != -1 and len(w.lookup._collection) > int(1.5 * csize):
            res.violate("lru-bound-at-quiescence", "%s: collection holds %d templates, collection_size=%d" % (what, len(w.lookup._collection), csize), replay_case=rc)
        # afterwards the lookup serves the current version
        for uri, v in w.versions.items():
            if uri in w.broken or uri in getattr(w, "deleted", set()):
                continue
            try:
                tq = w.lookup.get_template(uri)
                out = tq.render_unicode()
                if out != "%s#%d" % (uri, v) and getattr(w, "mtimes", {}).get((uri, v), 0) < tq.module._modified_time + 1:
                    # read before the modification, stamped after it: inside the one-second slack of C14's rule
                    res.count("quiescent_stale_within_compile_window")
                elif out != "%s#%d" % (uri, v):
                    res.violate("stale-after-quiescence", "%s: afterwards get_template(%r) renders %r, file is at version %d" % (what, uri, out, v), replay_case=rc)
            except Exception as e:
                res.violate("unusable-after-quiescence", "%s: afterwards get_template(%r) raised %r" % (what, uri, e), replay_case=rc)
        if switches >= 2:
            res.nontrivial("c16", name, tuple(s.coarse) if not line_level else tuple(c for _, c, _ in strategy.decisions))
        return s
    finally:
        w.close()


def explore_dfs(name, line_level, bound, res, limit, part=None):
    """DFS over schedules; with `part` (a forced decision prefix) only the subtree below it"""
    prefix = list(part or [])
    n = 0
    complete = False
    while True:
        st = sched.DFS(prefix, bound)
        rc = {"kind": "replay", "scenario": name, "prefix": prefix, "line": line_level, "bound": bound}
        if part and n == 0:
            # is the forced prefix realisable at all?  (an option index beyond the options falls back to 0)
            pass
        run_schedule(name, st, line_level, res, rc)
        if getattr(res, "stop", False):
            return n + 1, False
        if part and [c for _, c, _ in st.decisions[: len(part)]] != list(part):
            res.evaluations -= 1
            return n, True  # this part does not exist: its schedules belong to another part
        n += 1
        if res.sample is None:
            res.sample = {"scenario": name, "line_level": line_level, "decisions": [c for _, c, _ in st.decisions][:40]}
        nxt = st.next_prefix()
        if nxt is None:
            complete = True
            break
        if part is not None and nxt[: len(part)] != list(part):
            complete = True
            break
        if n >= limit:
            break
        prefix = nxt
    return n, complete


# ------------------------------------------------------------------ renders
RENDER_TEMPLATES = {
    "/base.html": "BASE[${next.body()}]${self.tail()}<%def name=\"tail()\">TAIL(${who})</%def>",
    # main lives in a subdirectory and names its include and its namespace RELATIVELY; same-named decoys sit at the
    # root, where an unresolved relative URI would land
    "/inc.html": "{ROOT-DECOY-inc:${who}}",
    "/ns.html": '<%def name="nd(a)">ROOT-DECOY-ND(${a})</%def>',
    "/sub/inc.html": "{inc:${who}}",
    "/sub/ns.html": '<%def name="nd(a)">ND(${a}|${who})</%def>',
    # names brought in with import= are bound to the importing render's own context - also when a nested def reads
    # them later in the render
    "/sub/imp.html": '<%def name="imported(a)">IMP(${a}|${who})</%def><%def name="imp2()">I2(${who})</%def>',
    "/sub/main.html": '<%inherit file="/base.html"/><%namespace name="n" file="ns.html"/><%namespace file="imp.html" import="imported, imp2"/>'
                  '<%!\ndef c16deco(fn):\n    def go(context, *a, **k):\n        context.write("<")\n        r = fn(*a, **k)\n        context.write(">")\n        return r\n    return go\n%>'
                  'M(${who})<%include file="inc.html"/>${n.nd(who)}${imported(who)}${cd(who)}${sh()}${outer2()}${dd(who)}${dd(1)}\n'
                  # (loops of a different length in each render, one nested in the other: a loop context belongs to the render that made it)
                  '% for i in range(2 + int(who[1:])):\n${loop.index}=${i}${who}${"L" if loop.last else ""}\n'
                  '% for j in "ab"[int(who[1:]) % 2:]:\n(${loop.parent.index}=${i}/${loop.index}${j}${loop.first})\n% endfor\n${loop.index}=${i}\n% endfor\n'
                  '<%def name="cd(a)" cached="True" cache_key="k-${a}" cache_timeout="30" cache_type="tA">CD(${a})</%def>'
                  '<%def name="sh()" cached="True" cache_type="tB">SH</%def>'
                  '<%def name="dd(a)" decorator="c16deco">DD(${a}|${who})</%def>'
                  '<%def name="outer2()">O2[<%def name="in2()">${imported(who)}${imp2()}</%def>${who}${in2()}${in2()}]</%def>',
}


def run_render_schedule(strategy, res, rc, nthreads=2, free=False, mods=None):
    import mako.cache

    lk = _st["TemplateLookup"](cache_impl="c16dict")
    for u, t in RENDER_TEMPLATES.items():
        lk.put_string(u, t)
    tpl = lk.get_template("/sub/main.html")
    import sys as _sys1

    solo = {}
    for i in range(nthreads):
        lk2 = _st["TemplateLookup"](cache_impl="c16dict")
        for u, t in RENDER_TEMPLATES.items():
            lk2.put_string(u, t)
        solo[i] = lk2.get_template("/sub/main.html").render_unicode(who="W%d" % i)
    outs = {}
    del _sys1.modules["verif_c16_cache"].DictImpl.calls[:]
    if free:
        import sys as _sys

        old = _sys.getswitchinterval()
        _sys.setswitchinterval(1e-6)
        barrier = threading.Barrier(nthreads)

        def work(i):
            barrier.wait()
            try:
                outs[i] = ("out", tpl.render_unicode(who="W%d" % i))
            except Exception as e:
                outs[i] = ("exc", e)

        ths = [threading.Thread(target=work, args=(i,), daemon=True) for i in range(nthreads)]
        for t in ths:
            t.start()
        import time as _time

        deadline = _time.time() + 60
        for t in ths:
            t.join(max(0.1, deadline - _time.time()))
        _sys.setswitchinterval(old)
        res.count("free_running_runs")
    else:
        s = sched.Sched(strategy)

        def make(i):
            def fn():
                try:
                    outs[i] = ("out", tpl.render_unicode(who="W%d" % i))
                except sched.Abort:
                    raise
                except Exception as e:
                    outs[i] = ("exc", e)
            return fn

        for i in range(nthreads):
            s.spawn(make(i))
        hook = _st["hook"]
        hook.install(mods or _st["mods_render"])
        hook.sched = s
        _st["sched"] = s
        try:
            ok = s.run(timeout=60)
        finally:
            _st["sched"] = None
            hook.sched = None
        res.count("render_schedules")
        res.count("context_switches", sum(1 for a, b in zip(s.trace, s.trace[1:]) if a[0] != b[0]))
        if s.deadlock or s.livelock or not ok:
            stuck = getattr(s, "stuck", None)
            res.stop = _st["stuck_seen"] = True
            res.violate("render-no-progress", "concurrent renders did not finish: %s%s" % (s.deadlock or "livelock", (
                "; thread %s stayed at %s" % (stuck["thread"], " <- ".join(stuck["stack"][:5]))) if stuck and stuck["same_position"] else ""), replay_case=rc)
            return
        if sum(1 for a, b in zip(s.trace, s.trace[1:]) if a[0] != b[0]) >= 2:
            res.nontrivial("c16r", tuple(c for _, c, _ in strategy.decisions))
    res.evaluations += 1
    # first-use initialisation of the cache: every backend call made for a section carries that section's arguments,
    # whichever thread initialises the Template's cache and the section's argument record
    import sys as _sys2

    for key, kw in _sys2.modules["verif_c16_cache"].DictImpl.calls:
        res.count("cache_backend_calls_checked")
        want = {"timeout": 30, "type": "tA"} if key.startswith("k-") else {"type": "tB"}
        if kw != want:
            res.violate("cache-arguments-under-concurrency", "backend call for key %r received %r, the section declares %r (schedule %r)" % (
                key, kw, want, [c for _, c, _ in getattr(strategy, "decisions", [])][:60]), replay_case=rc)
            break
    for i in range(nthreads):
        o = outs.get(i)
        if o is None or o[0] != "out" or o[1] != solo[i]:
            res.violate("render-differs-from-solo", "thread %d rendered %r, alone it renders %r (schedule %r)" % (i, o, solo[i], [c for _, c, _ in getattr(strategy, "decisions", [])][:60]), replay_case=rc)


def register_cache():
    import sys

    import mako.cache
    from mako.cache import CacheImpl

    if "verif_c16_cache" in sys.modules:
        return

    class DictImpl(CacheImpl):
        def __init__(self, cache):
            super().__init__(cache)
            self.store = {}

        calls = []  # (key, kw) of every get_or_create, for the first-use monitor

        def get_or_create(self, key, creation_function, **kw):
            DictImpl.calls.append((key, dict(kw)))
            # like real backends, the storage is chosen by the arguments the section carries
            k = (kw.get("type"), key)
            if k not in self.store:
                self.store[k] = creation_function()
            return self.store[k]

        def invalidate(self, key, **kw):
            for k in [k for k in self.store if k[1] == key]:
                self.store.pop(k, None)

    mod = type(sys)("verif_c16_cache")
    mod.DictImpl = DictImpl
    sys.modules["verif_c16_cache"] = mod
    mako.cache.register_plugin("c16dict", "verif_c16_cache", "DictImpl")


# ------------------------------------------------------------------ free-running lookups
def run_free_lookup(r, res):
    w = World(r.choice([-1, 1, 2]))
    ex = _st["exceptions"]
    try:
        for u in ("/a", "/b", "/c"):
            w.write(u)
        import sys as _sys

        old = _sys.getswitchinterval()
        _sys.setswitchinterval(1e-6)
        errs = []
        slack = []

        def getter(i):
            rr = common.rng_for(i, "free")
            for _ in range(200):
                u = rr.choice(["/a", "/b", "/c"])
                v0 = w.versions[u]
                try:
                    t = w.lookup.get_template(u)
                    out = t.render_unicode()
                    if int(out.split("#")[1]) < v0:
                        # C14's rule: a refresh is promised once the file's mtime is a whole second later than
                        # the moment the cached version was compiled (its recorded _modified_time).  A template
                        # whose source was read just before a modification but stamped after it is within that slack.
                        if w.mtimes[(u, v0)] >= t.module._modified_time + 1:
                            errs.append("stale %s < %d although mtime %d >= compiled %d + 1" % (out, v0, w.mtimes[(u, v0)], t.module._modified_time))
                        else:
                            slack.append(1)
                except ex.TemplateLookupException:
                    pass
                except Exception as e:
                    errs.append("%s: %s" % (type(e).__name__, e))

        def modifier():
            for _ in range(40):
                w.clock.advance(2)
                w.write(r.choice(["/a", "/b", "/c"]))

        ths = [threading.Thread(target=getter, args=(i,), daemon=True) for i in range(3)] + [threading.Thread(target=modifier, daemon=True)]
        for t in ths:
            t.start()
        import time as _time

        deadline = _time.time() + 60
        for t in ths:
            t.join(max(0.1, deadline - _time.time()))
        _sys.setswitchinterval(old)
        res.evaluations += 1
        res.count("free_running_runs")
        res.count("free_running_stale_within_compile_window", len(slack))
        if any(t.is_alive() for t in ths):
            res.violate("free-running-hang", "free-running threads did not finish")
        for e in errs[:3]:
            res.violate("free-running", "free-running lookup: %s" % e)
        if w.csize != -1 and len(w.lookup._collection) > int(1.5 * w.csize):
            res.violate("lru-bound-at-quiescence", "free-running: %d templates, collection_size=%d" % (len(w.lookup._collection), w.csize))
    finally:
        w.close()


def run_module_namespace_race(res):
    """first-use initialisation of a <%namespace module=...>: two free-running renders, the second starting while the
    first is still inside the import of the (slow to import, never imported before) module.  Each must produce what
    it produces alone; the import system's own lock is what the waiting render relies on."""
    import sys as _sys
    import time as _time

    _st["nsrace"] = _st.get("nsrace", 0) + 1
    name = "verif_c16_nsmod_%d_%d" % (os.getpid(), _st["nsrace"])
    d = tempfile.mkdtemp(prefix="c16ns-")
    with open(os.path.join(d, name + ".py"), "w") as f:
        f.write("import time\nEARLY = 1\ntime.sleep(0.3)\n\ndef greet(context, who):\n    return 'hi ' + who\n")
    _sys.path.insert(0, d)
    try:
        lk = _st["TemplateLookup"]()
        lk.put_string("/m.html", '<%%namespace name="h" module="%s"/>[${h.greet(who)}]' % name)
        tpl = lk.get_template("/m.html")
        outs = {}

        def work(i, delay):
            _time.sleep(delay)
            try:
                outs[i] = ("out", tpl.render_unicode(who="W%d" % i))
            except Exception as e:
                outs[i] = ("exc", "%s: %s" % (type(e).__name__, e))

        ths = [threading.Thread(target=work, args=(0, 0.0), daemon=True), threading.Thread(target=work, args=(1, 0.1), daemon=True)]
        for t in ths:
            t.start()
        for t in ths:
            t.join(30)
        res.evaluations += 1
        res.count("module_namespace_first_use_races")
        for i in range(2):
            if outs.get(i) != ("out", "[hi W%d]" % i):
                res.violate("render-differs-from-solo", "first use of <%%namespace module=...> by two threads: thread %d got %r, alone it renders %r" % (i, outs.get(i), "[hi W%d]" % i),
                            witness="module namespace imported for the first time by two renders at once")
    finally:
        _sys.path.remove(d)
        _sys.modules.pop(name, None)
        shutil.rmtree(d, ignore_errors=True)


def run_beaker_first_use(res):
    """first-use initialisation of a cached def with the default (Beaker) backend: several free-running renders ask
    for the same, not yet cached, key at once.  Like every sequential order of those renders, the body runs ONCE and
    all of them show that one execution's text; Beaker's per-key creation lock is what the late renders wait on.
    The body holds the door open (waits up to 0.3 s for a second thread to come in) so that an unguarded
    check-then-create lets both in."""
    import time as _time

    try:
        import beaker  # noqa: F401
    except ImportError:
        res.count("beaker_missing")
        return
    for section in ("def", "page", "block"):
        _st["bk"] = _st.get("bk", 0) + 1
        uri = "/bk_%d_%d.html" % (os.getpid(), _st["bk"])
        lk = _st["TemplateLookup"](cache_impl="beaker", cache_args={"type": "memory"})
        if section == "def":
            text = '<%def name="slow()" cached="True">[${enter(who)} for ${who}]</%def>${slow()}'
        elif section == "page":
            text = '<%page cached="True"/>[${enter(who)} for ${who}]'
        else:
            text = '<%block name="b" cached="True">[${enter(who)} for ${who}]</%block>'
        lk.put_string(uri, text)
        tpl = lk.get_template(uri)
        inside = []
        second = threading.Event()
        lock = threading.Lock()

        def enter(who):
            with lock:
                inside.append(who)
                if len(inside) >= 2:
                    second.set()
            second.wait(0.3)
            return who

        outs = {}
        start = threading.Barrier(3)

        def work(i):
            who = "W%d" % i
            try:
                start.wait(10)
                outs[i] = ("out", tpl.render_unicode(enter=enter, who=who))
            except Exception as e:
                outs[i] = ("exc", "%s: %s" % (type(e).__name__, e))

        ths = [threading.Thread(target=work, args=(i,), daemon=True) for i in range(3)]
        for t in ths:
            t.start()
        for t in ths:
            t.join(30)
        res.evaluations += 1
        res.count("beaker_first_use_races")
        if any(t.is_alive() for t in ths):
            res.violate("thread-blocked", "first use of a cached %s (Beaker backend) by three renders: a thread is still blocked after 30 s" % section)
            continue
        vals = sorted(outs.values())
        if any(v[0] != "out" for v in vals):
            res.violate("unexpected-exception", "first use of a cached %s (Beaker backend) by three renders: %r" % (section, vals))
        elif len(inside) != 1 or len(set(vals)) != 1 or vals[0][1] != "[%s for %s]" % (inside[0], inside[0]):
            res.violate("cached-section-not-sequential", "first use of a cached %s (Beaker backend) by three renders at once: the body ran %d times (%s), outputs %r - "
                        "in every sequential order it runs once and all three show that execution" % (section, len(inside), ",".join(inside), outs),
                        witness="concurrent first request for one cached section, Beaker backend")
        res.nontrivial("beaker-first-use", section)


def run_render_vs_modification(res):
    """a render of an inheriting / including / namespace-using template while the template it refers to is modified
    and re-fetched by another party: the modification is injected at the k-th get_template call made during the render
    (every k), which is where a concurrent modifier can fall.  Whatever k, the output is the one an unmodified or a
    fully modified referred-to template gives - never a mixture of the two versions."""
    clock = _st["clock"]
    TL = _st["TemplateLookup"]
    for how in ("inherit", "include", "namespace"):
        for k in range(1, 7):
            base = tempfile.mkdtemp(prefix="c16rm-")
            try:
                root = os.path.join(base, "root")
                os.makedirs(root)

                def write(name, text):
                    fp = os.path.join(root, name)
                    with open(fp, "w") as f:
                        f.write(text)
                    os.utime(fp, (clock.now, clock.now))

                def ref(v):
                    if how == "inherit":
                        return '%s[${next.body()}|${self.footer()}|${self.footer()}]<%%def name="footer()">%s-footer</%%def>' % (v.upper(), v)
                    return '%s-body<%%def name="footer()">%s-footer</%%def>' % (v.upper(), v)

                main = {"inherit": '<%inherit file="ref.html"/>child:${parent.footer()}',
                        "include": '<%namespace name="n" file="ref.html"/>[<%include file="ref.html"/>|${n.footer()}|<%include file="ref.html"/>]',
                        "namespace": '<%namespace name="n" file="ref.html"/>[${n.footer()}|${n.body()}|${local.get_namespace("ref.html").footer()}]'}[how]
                write("main.html", main)
                write("ref.html", ref("old"))
                clock.advance(3)
                state = {"n": 0}

                class Hook(TL):
                    def get_template(self, uri):
                        if uri.endswith("ref.html"):
                            state["n"] += 1
                            if state["n"] == k:
                                clock.advance(3)
                                write("ref.html", ref("new"))
                                clock.advance(3)
                        return TL.get_template(self, uri)

                lk = Hook(directories=[root], filesystem_checks=True)
                allowed = {}
                for v in ("old", "new"):
                    lk0 = TL(directories=[root])
                    lk0.put_string("ref.html", ref(v))
                    lk0.put_string("main.html", main)
                    allowed[v] = lk0.get_template("main.html").render_unicode()
                res.evaluations += 1
                res.count("render_vs_modification_points")
                try:
                    out = lk.get_template("main.html").render_unicode()
                except Exception as e:
                    out = "%s: %s" % (type(e).__name__, e)
                ok = out in allowed.values()
                if how != "inherit" and not ok:
                    # separate <%include>s / namespace uses may each see the version current at the moment they were
                    # resolved (namespaces when the render starts), but every single use is of ONE version
                    pieces_old = allowed["old"].strip("[]").split("|")
                    pieces_new = allowed["new"].strip("[]").split("|")
                    got = out.strip("[]").split("|")
                    ok = len(got) == len(pieces_old) and all(g in (a, b) for g, a, b in zip(got, pieces_old, pieces_new))
                if not ok:
                    res.violate("render-mixes-versions", "%s, ref.html modified at the %d. get_template call of the render: output %r, with the old ref.html it is %r, with the new %r"
                                % (how, k, out, allowed["old"], allowed["new"]), witness="render concurrent with a modification of the template it refers to")
                res.nontrivial("render-vs-mod", how, k)
            finally:
                shutil.rmtree(base, ignore_errors=True)


def run_decorator_rendezvous(res):
    """two renders of one Template are INSIDE the decorator of a top-level def at the same time (the decorator holds
    both at a barrier before it calls the def): each def body still runs with its own render's context"""
    lk = _st["TemplateLookup"]()
    lk.put_string("/dec.html", '<%!\ndef gate(fn):\n    def go(context, *a, **k):\n        try:\n            context["barrier"].wait(5)\n        except Exception:\n            pass\n'
                               '        return fn(*a, **k)\n    return go\n%>hello ${who}|${dd(1)}|${dd(2)}<%def name="dd(n)" decorator="gate">[${who}:${n}]</%def>')
    lk.put_string("/inc_dec.html", 'I{<%include file="/dec.html"/>}')
    for uri, fmt in (("/dec.html", "hello %s|[%s:1]|[%s:2]"), ("/inc_dec.html", "I{hello %s|[%s:1]|[%s:2]}")):
        tpl = lk.get_template(uri)
        barrier = threading.Barrier(2)
        outs = {}

        def work(who):
            try:
                outs[who] = tpl.render_unicode(who=who, barrier=barrier)
            except Exception as e:
                outs[who] = "%s: %s" % (type(e).__name__, e)

        ths = [threading.Thread(target=work, args=(w,), daemon=True) for w in ("alice", "bob")]
        for t in ths:
            t.start()
        for t in ths:
            t.join(60)
        res.evaluations += 1
        res.count("decorator_rendezvous_runs")
        for who in ("alice", "bob"):
            want = fmt % (who, who, who)
            if outs.get(who) != want:
                res.violate("render-differs-from-solo", "two renders of %s inside the decorator of a top-level def at the same time: %s got %r, alone it renders %r" % (uri, who, outs.get(who), want),
                            witness="concurrent renders meeting inside a def decorator")
        res.nontrivial("decorator-rendezvous", uri)


def run_loop_rendezvous(res):
    """two renders of one Template are inside their % for loops at the same time and advance in lock-step (every
    iteration of either loop level meets the other render at a barrier), the two being at DIFFERENT depths and
    positions: loop.index / first / last / parent of each render are those of its own loops"""
    lk = _st["TemplateLookup"]()
    lk.put_string("/loops.html", "% for i in outer:\n${sync()}${who}:${loop.index}=${i}${'F' if loop.first else ''}${'L' if loop.last else ''}\n"
                                 "% for j in inner:\n${sync()}(${loop.parent.index}${i}/${loop.index}${j}${'l' if loop.last else ''})\n% endfor\n"
                                 "${loop.index}${lp()}\n% endfor\n<%def name=\"lp()\">\\\n% for k in 'z':\n{${loop.index}${k}${loop.parent is None}}\\\n% endfor\n</%def>")
    lk.put_string("/loops_inc.html", 'I{<%include file="/loops.html" args="**context.kwargs"/>}')
    shapes = {"alice": ("abc", "xy"), "bob": ("p", "12345678")}   # 3 + 3*2 = 1 + 1*8 = 9 meetings each
    for uri in ("/loops.html", "/loops_inc.html"):
        tpl = lk.get_template(uri)
        solo = {w: tpl.render_unicode(who=w, outer=o, inner=n, sync=lambda: "") for w, (o, n) in shapes.items()}
        for rnd in range(3):
            barrier = threading.Barrier(2)
            outs = {}
            timeouts = []

            def sync():
                try:
                    barrier.wait(20)
                except threading.BrokenBarrierError:
                    timeouts.append(1)
                return ""

            def work(who):
                o, n = shapes[who]
                try:
                    outs[who] = tpl.render_unicode(who=who, outer=o, inner=n, sync=sync)
                except Exception as e:
                    outs[who] = "%s: %s" % (type(e).__name__, e)
                finally:
                    barrier.abort()   # the other render is not kept waiting once this one has ended

            ths = [threading.Thread(target=work, args=(w,), daemon=True) for w in shapes]
            for t in ths:
                t.start()
            for t in ths:
                t.join(90)
            res.evaluations += 1
            res.count("loop_rendezvous_runs")
            for who in shapes:
                if outs.get(who) != solo[who]:
                    res.violate("render-differs-from-solo", "two renders of %s inside their %% for loops at the same time: %s got %r, alone it renders %r" % (uri, who, outs.get(who), solo[who]),
                                witness="concurrent renders meeting inside % for loops that read loop.*")
        res.nontrivial("loop-rendezvous", uri)


# ------------------------------------------------------------------ plumbing
def gen_cases(tier, seed):
    for name, (_, threads, _, cbound) in SCENARIOS.items():
        n3 = len(threads) >= 3
        # coarse points: exhaustive within the scenario's bound, split by the first two decisions for parallelism
        if tier == "quick":
            b_eff = 3 if cbound is None else cbound      # quick: every schedule with at most this many preemptions
        else:
            b_eff = cbound if cbound is None else cbound + 1   # thorough: ALL interleavings for the one-get scenarios
        for a in range(len(threads)):
            for b in range(3):
                yield {"kind": "coarse", "scenario": name, "bound": b_eff, "part": [a, b]}
        yield {"kind": "line-dfs", "scenario": name, "bound": 1 if (tier == "quick" or n3) else 2, "limit": 300 if tier == "quick" else 30000}
        for i in range(2 if tier == "quick" else 40):
            yield {"kind": "line-random", "scenario": name, "seed": seed, "index": i, "n": 30 if tier == "quick" else 200}
    for i in range(8 if tier == "quick" else 200):
        yield {"kind": "render-random", "seed": seed, "index": i, "n": 10 if tier == "quick" else 40, "threads": 2 + i % 2}
    yield {"kind": "render-dfs", "bound": 1, "limit": 150 if tier == "quick" else 5000}
    # the same with the lines of mako/template.py as the only fine-grained switch points (what a Template object sets up
    # lazily on first use: few lines, so that every single preemption there is tried)
    yield {"kind": "render-dfs", "bound": 1, "limit": 600 if tier == "quick" else 5000, "mods": "template"}
    for i in range(4 if tier == "quick" else 60):
        yield {"kind": "free", "seed": seed, "index": i}


def run_case(case):
    res = common.CaseResult()
    register_cache()
    k = case["kind"]
    if _st.get("stuck_seen"):
        # a thread of an earlier case of this worker is still blocked inside the library: reported there
        res.count("cases_skipped_after_a_blocked_thread")
        return res
    if k == "coarse":
        n, complete = explore_dfs(case["scenario"], False, case["bound"], res, limit=case.get("limit", 400000), part=case["part"])
        res.count("coarse_schedules_exhaustive", n)
        if not complete:
            res.count("coarse_incomplete")
    elif k == "line-dfs":
        n, complete = explore_dfs(case["scenario"], True, case["bound"], res, limit=case["limit"])
        res.count("line_level_schedules", n)
        res.count("line_events", _st["hook"].events)
        _st["hook"].events = 0
    elif k == "line-random":
        r = common.rng_for(case["seed"], "c16lr", case["scenario"], case["index"])
        for j in range(case["n"]):
            st = sched.RandomPriority(common.rng_for(r.random()), len(SCENARIOS[case["scenario"]][1]), depth=r.choice([1, 2, 3]), steps=300)
            run_schedule(case["scenario"], st, True, res, {"kind": "norreplay"})
            res.count("line_level_schedules")
            if getattr(res, "stop", False):
                break
        res.count("line_events", _st["hook"].events)
        _st["hook"].events = 0
    elif k == "render-random":
        r = common.rng_for(case["seed"], "c16rr", case["index"])
        for j in range(case["n"]):
            st = sched.RandomPriority(common.rng_for(r.random()), case["threads"], depth=r.choice([1, 2, 4]), steps=3000)
            run_render_schedule(st, res, {"kind": "norreplay"}, nthreads=case["threads"])
            if getattr(res, "stop", False):
                break
        res.count("line_events", _st["hook"].events)
        _st["hook"].events = 0
        res.sample = {"kind": "render", "threads": case["threads"]}
    elif k == "render-dfs":
        prefix = []
        import mako.template as _mt

        mods = [_mt] if case.get("mods") == "template" else None
        for _ in range(case["limit"]):
            st = sched.DFS(prefix, case["bound"])
            run_render_schedule(st, res, {"kind": "render-replay", "prefix": prefix, "bound": case["bound"], "mods": case.get("mods")}, mods=mods)
            if mods:
                res.count("template_module_schedules")
            if getattr(res, "stop", False):
                break
            prefix = st.next_prefix()
            if prefix is None:
                res.count("render_dfs_complete")
                break
        res.count("line_events", _st["hook"].events)
        _st["hook"].events = 0
    elif k == "free":
        r = common.rng_for(case["seed"], "c16free", case["index"])
        run_free_lookup(r, res)
        run_render_schedule(None, res, {"kind": "free"}, nthreads=3, free=True)
        run_module_namespace_race(res)
        if case["index"] % 2 == 0:
            run_beaker_first_use(res)
        if case["index"] == 1:
            run_render_vs_modification(res)
        if case["index"] == 2:
            run_decorator_rendezvous(res)
        if case["index"] == 3:
            run_loop_rendezvous(res)
    elif k == "replay":
        st = sched.DFS(case["prefix"], case["bound"])
        run_schedule(case["scenario"], st, case["line"], res, case)
    elif k == "render-replay":
        st = sched.DFS(case["prefix"], case["bound"])
        import mako.template as _mt

        run_render_schedule(st, res, case, mods=[_mt] if case.get("mods") == "template" else None)
    return res

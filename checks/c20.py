"""C20 - message extraction finds every translatable string at its template line.

Planting with an independent line counter: unique messages in _(), gettext(), ngettext() calls are
written into every Python-bearing construct the statement lists (expressions and their filter
arguments, control lines, each line of <% %> / <%! %> blocks, def / block / page signatures, <%call expr>
and <%ns:def> attribute expressions), single- and multi-line, nested in defs and calls, LF/CRLF,
non-ASCII messages in three encodings; decoy calls stand in plain text, <%text>, <%doc> and ##
comments; translator comments at distance 1 (must attach) and >= 2 lines (must not).  The expected
multiset {(line, function, messages)} is compared with mako.ext.babelplugin.extract and with
LinguaMakoExtractor.
"""
import io
import os
import sys
import shutil
import tempfile

from mk import common

PROPERTY = "C20"
LEVEL = "exploration"
RULE = (
    "templates of 4-14 units drawn from 16 planting constructs and 5 decoy constructs with filler between them; "
    "x {LF, CRLF} x {ascii, utf-8, latin-1, cp1251 messages}; each run through the Babel extractor (bytes + "
    "input_encoding option) and the Lingua extractor (text); translator comments attached at distance 1 / "
    "detached at distance >= 2. distinct = by template text; non-trivial = at least 3 planted calls of which one "
    "sits in a multi-line construct or beyond line 5."
)
RULE += ' added since: blank lines after an opener, multi-line expressions / filter arguments / signatures (def, block, page, call - including an expression starting on the next line), untagged comments before control lines, magic-comment-only encodings, namespace definitions with attributes on later lines. messages on the continuation lines of backslash-continued control lines. many-attribute <%ns:def> templates extracted in child processes under eight PYTHONHASHSEED values. two-line def signatures on tags that also carry decorator= / filter= / buffered= / cached=. filter lists that start on a later line than the expression (also behind a trailing comment).'
ASSUMPTIONS = [
    "not asserted: calls inside <%include file=> / filter= attributes of defs, and a gettext call used as the "
    "exception class of a `% except` line (the Lingua plugin blanks try/except/else lines)",
    "Babel's extract_python and Lingua's Python extractor are trusted for plain Python",
]
MIN_NONTRIVIAL = 200
REQUIRED_COUNTERS = ["babel_templates", "lingua_templates", "messages_planted", "decoys_planted", "translator_comments_attached", "translator_comments_detached"]
REQUIRED_COUNTERS += ["hash_seed_children"]
RULE += " templates that declare a legacy encoding themselves, extracted by Babel with an encoding option that says utf-8."
REQUIRED_COUNTERS += ["declared_encoding_against_option"]

_st = {}


def setup_worker():
    from lingua.extractors import register_extractors
    from mako.ext import babelplugin, linguaplugin

    register_extractors()
    _st.update(babel=babelplugin, lingua=linguaplugin, tmp=tempfile.mkdtemp(prefix="c20-"))
    import atexit

    atexit.register(lambda: shutil.rmtree(_st["tmp"], ignore_errors=True))


class Doc:
    def __init__(self, nl):
        self.nl = nl
        self.parts = []
        self.expected = []   # (line, func, messages tuple or str, comment or None, tag)
        self.n = 0

    def line(self):
        return "".join(self.parts).count("\n") + 1

    def add(self, text):
        ln = self.line()
        self.parts.append(text)
        return ln

    def msg(self, word):
        self.n += 1
        return "%s msg %d" % (word, self.n)


WORDS = {"ascii": ["plain"], "utf-8": ["grüße", "日本", "naïve"], "latin-1": ["café", "niño"], "cp1251": ["привет", "мир"]}


def plant(d, r, kind, enc, comment=None):
    """append one construct with planted calls; records expectations. comment: translator comment text expected on
    the first message of this construct (already written on the previous line by the caller)"""
    nl = d.nl
    w = r.choice(WORDS[enc])
    m = d.msg(w)
    first = len(d.expected)

    def exp(line, func, messages, tag=kind, own=True):
        d.expected.append([line, func, messages, None, tag, own])

    if kind == "expr":
        ln = d.add("text ${_('%s')} more" % m + nl)
        exp(ln, "_", m)
    elif kind == "expr-gettext":
        ln = d.add("${gettext('%s')}" % m + nl)
        exp(ln, "gettext", m)
    elif kind == "expr-multiline":
        if r.random() < 0.5:
            ln = d.add("${ fn(1," + nl + ("    _('%s')," % m) + nl + "    3) }" + nl)
            exp(ln + 1, "_", m)
        else:
            ln = d.add("${  " + nl + ("    _('%s')" % m) + nl + "}" + nl)
            exp(ln + 1, "_", m)
    elif kind == "expr-two":
        m2 = d.msg(w)
        ln = d.add("${_('%s') + _('%s')}" % (m, m2) + nl)
        exp(ln, "_", m)
        exp(ln, "_", m2)
    elif kind == "filter-arg":
        ln = d.add("${value | fmt(_('%s'))}" % m + nl)
        exp(ln, "_", m, "filter-arg")
    elif kind == "filter-arg-multiline":
        m2 = d.msg(w)
        if r.random() < 0.5:
            ln = d.add("${value | fmt(_('%s')," % m + nl + "    _('%s'))}" % m2 + nl)
            exp(ln, "_", m, "filter-arg")
            exp(ln + 1, "_", m2, "filter-arg")
        else:
            # the expression itself spans lines too; the filter list starts on its last line
            ln = d.add("${ fn(1," + nl + "    2) | fmt(" + nl + "    _('%s')," % m + nl + nl + "    _('%s')) }" % m2 + nl)
            exp(ln + 2, "_", m, "filter-arg")
            exp(ln + 4, "_", m2, "filter-arg")
    elif kind == "filter-arg-after-linebreak":
        # the filter list starts on a line after the expression (which may end in a comment)
        m2 = d.msg(w)
        if r.random() < 0.5:
            ln = d.add("${value" + nl + "    | fmt(_('%s'), _('%s'))}" % (m, m2) + nl)
            exp(ln + 1, "_", m, "filter-arg")
            exp(ln + 1, "_", m2, "filter-arg")
        else:
            ln = d.add("${fn(1, 2)  # a remark" + nl + nl + "    | fmt(_('%s'), _('%s'))}" % (m, m2) + nl)
            exp(ln + 2, "_", m, "filter-arg")
            exp(ln + 2, "_", m2, "filter-arg")
    elif kind == "control-if":
        ln = d.add("% if _('" + m + "'):" + nl + "x" + nl + "% endif" + nl)
        exp(ln, "_", m)
    elif kind == "control-elif":
        ln = d.add("% if cond:" + nl + "x" + nl + "% elif _('" + m + "'):" + nl + "y" + nl + "% endif" + nl)
        exp(ln + 2, "_", m)
    elif kind == "control-continued":
        # a control line continued with backslashes: every message is reported on the physical line it is written on
        m2, m3 = d.msg(w), d.msg(w)
        kw = r.choice(["if", "for"])
        head = "% if cond or \\" if kw == "if" else "% for it in [cond, \\"
        tail = ":" if kw == "if" else "]:"
        sep = " or" if kw == "if" else ","
        ln = d.add(head + nl + "    _('" + m + "')" + sep + " \\" + nl + "    ngettext('" + m2 + "', '" + m3 + "', 2)" + tail + nl + "x" + nl + "% end" + kw + nl)
        exp(ln + 1, "_", m)
        exp(ln + 2, "ngettext", (m2, m3))
    elif kind == "control-for":
        ln = d.add("% for it in [_('" + m + "')]:" + nl + "${it}" + nl + "% endfor" + nl)
        exp(ln, "_", m)
    elif kind in ("code-block", "module-block"):
        m2, m3 = d.msg(w), d.msg(w)
        opener = "<%" if kind == "code-block" else "<%!"
        lead = r.choice([1, 1, 2])
        margin = r.choice(["", "    "])
        if r.random() < 0.4:
            # blanks after the opening tag / a line of spaces before the code
            opener = opener + r.choice(["  ", "\t"])
        if r.random() < 0.3:
            opener = opener + nl + "    "
            lead_extra = 1
        else:
            lead_extra = 0
        lead0 = lead
        lead = lead + lead_extra
        ln = d.add(opener + nl * lead0 + margin + "a1 = _('%s')" % m + nl + margin + "a2 = 1" + nl + margin + "a3 = ngettext('%s', '%s', a2)" % (m2, m3) + nl + "%>" + nl)
        exp(ln + lead, "_", m)
        exp(ln + lead + 2, "ngettext", (m2, m3))
    elif kind == "def-signature":
        ln = d.add('<%def name="df' + str(d.n) + "(a=_('" + m + "'))\">" + nl + "body" + nl + "</%def>" + nl)
        exp(ln, "_", m)
    elif kind == "def-signature-decorated":
        # other attributes of the tag (decorator=, filter=, buffered=, cached=) do not move the signature's lines
        m2 = d.msg(w)
        extra = r.choice([' decorator="deco_"', ' decorator="deco_" filter="trim"', ' buffered="True" decorator="deco_"', ' filter="trim" cached="False"'])
        ln = d.add('<%def name="dd' + str(d.n) + "(a=_('" + m + "')," + nl + "    b=_('" + m2 + "'))" + '"' + extra + ">" + nl + "body" + nl + "</%def>" + nl)
        exp(ln, "_", m)
        exp(ln + 1, "_", m2)
    elif kind == "block-args":
        ln = d.add('<%block name="bk' + str(d.n) + "\" args=\"a=_('" + m + "')\">" + nl + "body" + nl + "</%block>" + nl)
        exp(ln, "_", m)
    elif kind == "page-args":
        ln = d.add("<%page args=\"ttl=_('" + m + "')\"/>" + nl)
        exp(ln, "_", m)
    elif kind == "signature-multiline":
        # signatures and call expressions spread over several lines, also starting with a line break
        Q = '"'
        m2 = d.msg(w)
        which = r.choice(["def", "block", "page", "call"])
        if which == "def":
            ln = d.add('<%def name="dm' + str(d.n) + "(" + nl + "    a=_('" + m + "')," + nl + "    b=_('" + m2 + "'))" + Q + ">" + nl + "body" + nl + "</%def>" + nl)
        elif which == "block":
            ln = d.add('<%block name="bm' + str(d.n) + '" args="' + nl + "    a=_('" + m + "')," + nl + "    b=_('" + m2 + "')" + Q + ">" + nl + "body" + nl + "</%block>" + nl)
        elif which == "page" and not getattr(d, "has_page", False):
            d.has_page = True
            ln = d.add('<%page args="' + nl + "    pa=_('" + m + "')," + nl + "    pb=_('" + m2 + "')" + Q + "/>" + nl)
        elif r.random() < 0.5:
            # the call expression itself starts on the line after the opening quote
            ln = d.add('<%call expr="' + nl + "    wrap(_('" + m + "')," + nl + "    _('" + m2 + "'))" + Q + ">" + nl + "in call" + nl + "</%call>" + nl)
        else:
            ln = d.add('<%call expr="wrap(' + nl + "    _('" + m + "')," + nl + "    _('" + m2 + "'))" + Q + ">" + nl + "in call" + nl + "</%call>" + nl)
        exp(ln + 1, "_", m)
        exp(ln + 2, "_", m2)
    elif kind == "call-expr":
        m2 = d.msg(w)
        ln = d.add("<%call expr=\"wrap(_('" + m + "'))\">" + nl + "in call ${_('" + m2 + "')}" + nl + "</%call>" + nl)
        exp(ln, "_", m)
        exp(ln + 1, "_", m2, own=False)
    elif kind == "nsdef-attr":
        if r.random() < 0.5:
            ln = d.add("<%self:wrap title=\"${_('" + m + "')}\">" + nl + "in nsdef" + nl + "</%self:wrap>" + nl)
            exp(ln, "_", m)
        else:
            # the attribute expression starts on the line after its ${, a second attribute follows on a later line
            m2 = d.msg(w)
            ln = d.add("<%self:wrap title=\"${" + nl + "    _('" + m + "')}\"" + nl + "    other=\"${ _('" + m2 + "') }\">" + nl + "in nsdef" + nl + "</%self:wrap>" + nl)
            exp(ln + 1, "_", m)
            exp(ln + 2, "_", m2, "nsdef-attr-later-line")
    elif kind == "in-def-body":
        m2 = d.msg(w)
        ln = d.add('<%def name="dg' + str(d.n) + '()">' + nl + "${_('" + m + "')}" + nl + "<%" + nl + "    z = _('" + m2 + "')" + nl + "%>" + nl + "</%def>" + nl)
        exp(ln + 1, "_", m, own=False)
        exp(ln + 3, "_", m2, own=False)
    else:
        raise ValueError(kind)
    if comment is not None:
        # the comment belongs to every message of the construct itself, not to those of its child nodes
        for e in d.expected[first:]:
            if e[5]:
                e[3] = comment


def decoy(d, r, kind):
    nl = d.nl
    t = "decoy %d" % r.randrange(10 ** 6)
    if kind == "text":
        d.add("plain _('%s') text gettext('%s')" % (t, t) + nl)
    elif kind == "text-tag":
        d.add("<%text>${_('" + t + "')} <% x = _('" + t + "') %></%text>" + nl)
    elif kind == "doc":
        d.add("<%doc>" + nl + "${_('" + t + "')}" + nl + "</%doc>" + nl)
    elif kind == "comment":
        d.add("## ${_('" + t + "')}" + nl)
    elif kind == "escaped-percent":
        d.add("%% if _('" + t + "'):" + nl)


PLANTS = ["expr", "expr-gettext", "expr-multiline", "expr-two", "filter-arg", "filter-arg-multiline", "filter-arg-after-linebreak", "signature-multiline", "control-if", "control-elif", "control-for", "control-continued", "def-signature-decorated", "code-block", "module-block",
          "def-signature", "block-args", "call-expr", "nsdef-attr", "in-def-body"]
DECOYS = ["text", "text-tag", "doc", "comment", "escaped-percent"]


def build(r, nl, enc, magic=False):
    d = Doc(nl)
    if magic:
        # the source encoding is declared by the template itself (first-line magic comment), not by an option
        d.add("## -*- coding: %s -*-" % enc + nl)
    if r.random() < 0.3:
        plant(d, r, "page-args", enc)
        d.has_page = True
    attached = detached = 0
    for _ in range(r.randint(4, 14)):
        k = r.random()
        if k < 0.25:
            decoy(d, r, r.choice(DECOYS))
            d.decoys = getattr(d, "decoys", 0) + 1
        elif k < 0.4:
            d.add(r.choice(["filler text", "${plain_expr}", "", "<% q = 1 %>"]) + nl)
        else:
            kind = r.choice(PLANTS)
            c = None
            kc = r.random()
            if kc < 0.2 and kind not in ("control-elif", "in-def-body"):
                c = "TRANSLATORS: note %d" % r.randrange(1000)
                d.add("## " + c + nl)
                attached += 1
            elif kc < 0.3 and kind not in ("control-elif", "in-def-body"):
                # a comment without the tag, directly before the construct (also as the very first node of the
                # template or of a def body): never a translator comment
                d.add("## just a remark %d" % r.randrange(1000) + nl)
                d.untagged = getattr(d, "untagged", 0) + 1
            elif kc < 0.4:
                d.add("## TRANSLATORS: far away %d" % r.randrange(1000) + nl)
                d.add("between" + nl)
                d.add("still between" + nl)
                detached += 1
            plant(d, r, kind, enc, c)
    d.attached, d.detached = attached, detached
    return d


def canon(m):
    if isinstance(m, (list, tuple)):
        t = tuple(x for x in m if isinstance(x, str))  # Babel adds None for non-literal arguments (the count of ngettext)
        return t if len(t) != 1 else t[0]
    return m


def compare(found, d, which, res, rc, text):
    """found: list of (line, func, messages, comments list)"""
    exp = [(e[0], e[1], canon(e[2]), e[3], e[4]) for e in d.expected]  # (line, func, messages, comment, tag)
    got = [(f[0], f[1], canon(f[2]), list(f[3])) for f in found]
    unmatched = list(got)
    for line, func, msgs, comment, tag in exp:
        hit = [g for g in unmatched if g[2] == msgs]
        what = "%s extractor, template\n%s" % (which, text)
        if not hit:
            anywhere = [g for g in got if g[2] == msgs]
            fid = None
            res.violate("message-missed-" + tag, "%s\nmessage %r (planted in %s at line %d) was not extracted" % (what, msgs, tag, line),
                        finding=fid, witness="${value | fmt(_('m'))}: message inside a filter argument is not extracted" if fid else tag, replay_case=rc)
            continue
        g = hit[0]
        unmatched.remove(g)
        if g[1] != func:
            res.violate("wrong-function-name", "%s\nmessage %r reported with function %r, written with %r" % (what, msgs, g[1], func), replay_case=rc)
        if g[0] != line:
            # recogniser for C20/nsdef-attribute-on-later-line: the attribute stands on a later line of the tag than an
            # earlier attribute and is reported too EARLY (the line breaks between attributes are not part of the call
            # expression the extractors read); too late, or any other tag kind, is a new violation
            fid = "C20/nsdef-attribute-on-later-line" if tag == "nsdef-attr-later-line" and g[0] < line else None
            res.violate("wrong-line-%s-%s" % (which, tag), "%s\nmessage %r reported at line %r, written on line %d" % (what, msgs, g[0], line), finding=fid,
                        witness="<%ns:def a=\"...\"(newline) b=\"${_('m')}\">: the message in b is reported on an earlier line of the tag" if fid else "%s %s" % (which, tag), replay_case=rc)
        has = [c for c in g[3] if c]
        if comment is not None:
            if not any(comment in c for c in has):
                res.violate("translator-comment-lost-" + which, "%s\nmessage %r lacks translator comment %r (has %r)" % (what, msgs, comment, has), replay_case=rc)
        elif has:
            res.violate("translator-comment-misattached-" + which, "%s\nmessage %r carries translator comments %r although none stands directly before its construct" % (what, msgs, has), replay_case=rc)
    for g in unmatched:
        what = "%s extractor, template\n%s" % (which, text)
        if isinstance(g[2], str) and g[2].startswith("decoy") or (isinstance(g[2], tuple) and any(str(x).startswith("decoy") for x in g[2])):
            res.violate("decoy-extracted", "%s\nreported %r from a text/comment construct" % (what, g), replay_case=rc)
        else:
            res.violate("message-duplicated", "%s\nreported %r more often than written" % (what, g), replay_case=rc)


def run_template(r, nl, enc, res):
    magic = enc in ("latin-1", "cp1251") and r.random() < 0.35
    d = build(r, nl, enc, magic)
    if magic:
        res.count("templates_declaring_their_encoding")
    text = "".join(d.parts)
    rc = {"kind": "one", "text": text, "enc": enc, "expected": d.expected}
    res.evaluations += 1
    res.count("messages_planted", len(d.expected))
    res.count("decoys_planted", getattr(d, "decoys", 0))
    res.count("translator_comments_attached", d.attached)
    res.count("translator_comments_detached", d.detached)
    res.count("untagged_comments_before_messages", getattr(d, "untagged", 0))
    codec = "utf-8" if enc == "ascii" else enc
    # Babel
    try:
        data = text.encode(codec)
        # (a template that declares its encoding itself is read by that declaration, whatever the option says)
        opts = ({} if len(text) % 2 else {"encoding": "utf-8"}) if magic else {"encoding": codec}
        if magic and opts:
            res.count("declared_encoding_against_option")
        found = list(_st["babel"].extract(io.BytesIO(data), ["_", "gettext", "ngettext"], ["TRANSLATORS:"], opts))
        res.count("babel_templates")
        compare(found, d, "babel", res, rc, text)
    except Exception as e:
        res.violate("babel-raises", "Babel extractor raised %s: %s on\n%s" % (type(e).__name__, e, text), replay_case=rc)
    # Lingua
    try:
        if magic:
            ext = _st["lingua"].LinguaMakoExtractor({"comment-tags": "TRANSLATORS:", "encoding": "utf-8"})  # Lingua's default
            msgs = list(ext("t.mako", _Opts(), io.BytesIO(text.encode(codec))))
        else:
            ext = _st["lingua"].LinguaMakoExtractor({"comment-tags": "TRANSLATORS:", "encoding": codec})
            msgs = list(ext("t.mako", _Opts(), io.StringIO(text)))
        found = []
        for m in msgs:
            mm = (m.msgid, m.msgid_plural) if m.msgid_plural else m.msgid
            func = None
            found.append((m.location[1], None, mm, [m.comment or ""]))
        res.count("lingua_templates")
        d2 = Doc(nl)
        d2.expected = [[e[0], None, e[2], e[3], e[4], e[5]] for e in d.expected]
        compare(found, d2, "lingua", res, rc, text)
    except Exception as e:
        res.violate("lingua-raises", "Lingua extractor raised %s: %s on\n%s" % (type(e).__name__, e, text), replay_case=rc)
    multi = any(e[4] in ("expr-multiline", "code-block", "module-block", "in-def-body", "control-elif") for e in d.expected)
    if len(d.expected) >= 3 and (multi or any(e[0] > 5 for e in d.expected)):
        res.nontrivial("c20", text)
    if res.sample is None:
        res.sample = {"encoding": enc, "template": text[:500], "expected": d.expected[:6]}


class _Opts:
    keywords = []
    domain = None
    comment_tag = "TRANSLATORS:"

    def __getattr__(self, k):
        return None


HASHSEED_TEXTS = [
    "<%self:wrap title=\"${_('t1')}\"\n    body=\"${fn(1,\n        2)}\"\n    footer=\"${_('f1')}\"\n    css=\"${gettext('c1')}\"\n    alt=\"x\">\nin ${_('inner')}\n</%self:wrap>\n",
    "<%self:wrap zeta=\"${_('z')}\" alpha=\"${_('a')}\"\n   mid=\"${(1,\n 2)}\" omega=\"${_('o')}\" beta=\"${ngettext('b1', 'b2', 2)}\"/>\n${_('after')}\n",
    "<%def name=\"d(a=_('da'), b=_('db'))\">\n<%self:w k1=\"${_('k1')}\" k2=\"${_('k2')}\" k3=\"${_('k3')}\" k4=\"${_('k4')}\" k5=\"${_('k5')}\" k6=\"${_('k6')}\"/>\n</%def>\n",
]


def run_hash_seeds(res):
    """what the extractors report does not depend on PYTHONHASHSEED (a tag's attributes are read in the order they are
    written): the same templates in fresh processes under several seeds give identical lists"""
    import json as _json
    import subprocess
    import tempfile as _tf

    child = os.path.join(os.path.dirname(os.path.dirname(os.path.abspath(__file__))), "mk", "c20_child.py")
    fd, spec = _tf.mkstemp(prefix="c20spec-", suffix=".json")
    with os.fdopen(fd, "w") as f:
        _json.dump({"repo": common.REPO, "texts": HASHSEED_TEXTS}, f)
    results = {}
    try:
        for seed in ("0", "1", "2", "3", "5", "7", "11", "42"):
            p = subprocess.run([sys.executable, child, spec], stdout=subprocess.PIPE, stderr=subprocess.PIPE, text=True, timeout=300,
                               env=dict(os.environ, PYTHONHASHSEED=seed, PYTHONDONTWRITEBYTECODE="1"))
            res.evaluations += 1
            res.count("hash_seed_children")
            try:
                results[seed] = _json.loads(p.stdout.strip().splitlines()[-1])
            except Exception:
                res.violate("child-failed", "PYTHONHASHSEED=%s child failed: rc=%s %s" % (seed, p.returncode, p.stderr[-400:]))
    finally:
        os.remove(spec)
    if results:
        ref_seed = sorted(results)[0]
        for seed, r_ in results.items():
            for i, (a, b) in enumerate(zip(results[ref_seed], r_)):
                for which in ("babel", "lingua"):
                    if a[which] != b[which]:
                        res.violate("extraction-depends-on-hash-seed", "%s extractor, template %r: PYTHONHASHSEED=%s reports %r, PYTHONHASHSEED=%s reports %r"
                                    % (which, HASHSEED_TEXTS[i], ref_seed, a[which], seed, b[which]))
        res.nontrivial("hash-seeds", len(results))


def gen_cases(tier, seed):
    yield {"kind": "hash-seeds"}
    n = 8000 if tier == "quick" else 60000
    per = 25
    for i in range(n // per):
        yield {"kind": "batch", "seed": seed, "index": i, "n": per}


def run_case(case):
    res = common.CaseResult()
    if case["kind"] == "hash-seeds":
        run_hash_seeds(res)
    elif case["kind"] == "batch":
        r = common.rng_for(case["seed"], "c20", case["index"])
        for _ in range(case["n"]):
            run_template(r, r.choice(["\n", "\n", "\r\n"]), r.choice(["ascii", "utf-8", "latin-1", "cp1251"]), res)
    return res

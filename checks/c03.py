"""C03 - control lines and Python blocks execute with Python semantics.

Dual emission: a random nest of control structures is printed twice - as a Mako template (under
several layouts: indentation of % lines, margins of <% %> blocks, comment lines, CRLF) and as an
equivalent plain Python function writing to a list.  The Python function IS the oracle (control
structures have Python semantics by the statement); `loop` attributes are recomputed by a 25-line
loop-record class from the iterable.  Output or exception type must agree; generated Template.code
must compile.
"""
import types

from mk import common

PROPERTY = "C03"
LEVEL = "exploration"
RULE = (
    "templates from a grammar of nested if/elif/else, for/else (lists, tuples, strings, generators, ranges of "
    "length 0-4, with and without `loop`), while, try/except, with, <% %> blocks (assignments, "
    "augmented assignments, break/continue/return/raise), def calls, text, expressions, comment-only and "
    "empty bodies; depth <=3 (quick) / <=5 (thorough); each emitted under 3 layouts; plus enable_loop "
    "off / re-enabled by <%page>. distinct = by emitted template text; non-trivial = contains a loop using "
    "`loop` or an exception/return/break path that was actually taken (marked by the model)."
)
RULE += " added since: inner loops whose body reads only loop.parent.*, loop.parent is None at top level, several % except clauses on one % try, and the enable_loop matrix {constructor option on/off} x {<%page enable_loop> absent/True/False} through Template and TemplateLookup. `loop` read inside closures written in a `% for` body (anonymous block, <%call> bodies, nested defs; one and two loop levels; with and without a direct read in the loop body). `loop` read only in tag attributes (call expression, <%ns:def> / <%include> attributes, args=, filter= of <%text> / <%block>, filter arguments). iterables whose text holds colons (slices, dict display, lambda, 'a:b'). generators whose pulls are observable and one that fails on its third pull. hash signs inside string literals of for / if / elif lines."
RULE += " loops over things that cannot be iterated (None, an int, an object whose __iter__ raises) inside % try, followed by loops that read loop.*."
ASSUMPTIONS = [
    "the dual Python emission and the loop-record class in checks/c03.py state the intended semantics",
    "`% else:` after `% try:` is not generated (Mako lists only except/finally as try continuations)",
]
MIN_NONTRIVIAL = 300
REQUIRED_COUNTERS = ["renders_compared", "loop_attribute_reads", "exception_paths", "return_paths", "break_paths", "enable_loop_variants", "code_compiles", "loop_closure_renders", "unloopable_renders"]

_st = {}


def setup_worker():
    from mako import exceptions
    from mako.template import Template

    from mako.lookup import TemplateLookup

    _st.update(Template=Template, exceptions=exceptions, TemplateLookup=TemplateLookup)


class LR:
    """reference loop record"""

    def __init__(self, iterable, parent):
        self.iterable = iterable
        self.index = 0
        self.parent = parent

    def __len__(self):
        return len(self.iterable)

    first = property(lambda s: s.index == 0)
    last = property(lambda s: s.index == len(s.iterable) - 1)
    even = property(lambda s: s.index % 2 == 0)
    odd = property(lambda s: s.index % 2 == 1)
    reverse_index = property(lambda s: len(s.iterable) - s.index - 1)

    def cycle(self, *v):
        return v[self.index % len(v)]


NoLoop = type("RuntimeException", (Exception,), {})  # named like Mako's, so printed type names agree


class Stop(BaseException):
    """the model's `return` from the template body (not an Exception: template handlers must not see it)"""


class Gen:
    """emits template lines (T) and model python lines (P) in parallel"""

    def __init__(self, r, maxdepth, layout):
        self.r = r
        self.maxdepth = maxdepth
        self.layout = layout
        self.T = []
        self.P = []
        self.n = 0
        self.marks = set()
        self.uses_loop = False
        self.defs = []  # (name, T lines, P lines)

    def uid(self):
        self.n += 1
        return self.n

    # -- emission helpers
    def t(self, line):
        self.T.append(line)

    def p(self, ind, line):
        self.P.append("    " * ind + line)

    def ctl(self, text):
        lay = self.layout
        ws = {0: "", 1: "  ", 2: "\t"}[lay["ctl_indent"]]
        sp = "" if lay["tight"] else " "
        self.t(ws + "%" + sp + text)

    def code(self, ind, lines):
        """<% %> block with the layout's margin; model gets the same statements"""
        m = self.layout["margin"]
        self.t("<%")
        for ln in lines:
            self.t(m + ln)
        self.t("%>")
        for ln in lines:
            self.p(ind, ln)
        self.p(ind, "out.append(NL)")

    def text(self, ind):
        s = "t%d" % self.uid()
        self.t(s)
        self.p(ind, "out.append(%r + NL)" % s)

    def expr(self, ind, e, pe=None):
        self.t("${%s}" % e)
        self.p(ind, "out.append(str(%s) + NL)" % (pe or e))

    # -- grammar
    def body(self, ind, depth, scope):
        """scope: dict(loopdepth, in_def, vars(list of readable names), inloop(bool: break/continue legal))"""
        r = self.r
        k = r.choice([0, 1, 1, 2, 3])
        if k == 0:
            if r.random() < 0.5:
                self.t("## only a comment")
            self.p(ind, "pass")
            return
        for _ in range(k):
            self.item(ind, depth, scope)

    def item(self, ind, depth, scope):
        r = self.r
        choices = ["text", "text", "expr", "code"]
        if depth < self.maxdepth:
            choices += ["if", "if", "for", "for", "while", "try", "with", "defcall"]
        if scope["loopdepth"] or self.layout.get("loop_outside"):
            choices += ["loopattr", "loopattr"]
        if scope["inloop"]:
            choices += ["break"]
        choices += ["return"] if r.random() < 0.15 else []
        choices += ["raise"] if r.random() < 0.2 else []
        c = r.choice(choices)
        getattr(self, "g_" + c)(ind, depth, scope)

    def g_text(self, ind, depth, scope):
        self.text(ind)

    def g_expr(self, ind, depth, scope):
        v = self.r.choice(scope["vars"])
        self.expr(ind, self.r.choice(["%s", "%s + 1", "(%s, 'x')[0]", " %s "]) % v)

    def g_code(self, ind, depth, scope):
        r = self.r
        v = r.choice(scope["vars"])
        k = r.randrange(3)
        if k == 0:
            self.code(ind, ["acc = acc + [%s]" % v if False else "acc.append(%s)" % v])
        elif k == 1:
            n = "z%d" % self.uid()
            self.code(ind, ["%s = %s * 2" % (n, v), "if %s > 3:" % n, "    %s -= 1" % n, "acc.append(%s)" % n])
            scope["vars"] = scope["vars"] + [n]
        else:
            self.code(ind, ["# comment only", "pass"])

    def cond(self, scope):
        r = self.r
        v = r.choice(scope["vars"])
        return r.choice(["%s > 1", "%s == 2", "not %s", "%s %% 2 == 0", "%s < 3 and True", "(%s or 0) >= 0", "str(%s) != '#'", "'#%%d:' %% %s == '#2:'"]) % v

    def g_if(self, ind, depth, scope):
        r = self.r
        c = self.cond(scope)
        self.ctl("if %s:" % c)
        self.p(ind, "if %s:" % c)
        self.body(ind + 1, depth + 1, dict(scope))
        for _ in range(r.choice([0, 0, 1, 2])):
            c2 = self.cond(scope)
            self.ctl("elif %s:" % c2)
            self.p(ind, "elif %s:" % c2)
            self.body(ind + 1, depth + 1, dict(scope))
        if r.random() < 0.5:
            self.ctl("else:")
            self.p(ind, "else:")
            self.body(ind + 1, depth + 1, dict(scope))
        self.ctl("endif")

    def g_for(self, ind, depth, scope):
        r = self.r
        it = r.choice(["it_list", "it_tuple", "it_str", "it_empty", "it_gen()", "range(%d)" % r.randint(0, 4), "it_one",
                       # iterables whose text holds colons, brackets and a lambda (the line ends in a colon of its own)
                       "it_side()", "it_side()", "it_fail()", "it_list[1:]", "it_tuple[::2]", "{'p': 1, 'q': 2}", "sorted(it_list, key=lambda v: -v)", "'a:b'",
                       # ... and a hash sign inside a string literal (not a comment)
                       "'a#b'", "'#' * 2"])
        var = "x%d" % self.uid()
        use_loop = r.random() < 0.6
        target = var
        if it in ("it_list", "it_tuple") and r.random() < 0.2:
            target = "(%s)" % var  # parenthesised target
        self.ctl("for %s in %s:" % (target, it))
        sized = not it.startswith(("it_gen", "it_side", "it_fail"))
        sub = dict(scope, vars=scope["vars"] + ([var] if it not in ("it_str", "'a:b'", "'a#b'", "'#' * 2", "{'p': 1, 'q': 2}") else []), inloop=True)
        if use_loop:
            self.uses_loop = True
            self.p(ind, "LS.append(LR(%s, LS[-1] if LS else None))" % it)
            self.p(ind, "try:")
            self.p(ind + 1, "for _i%d, %s in enumerate(LS[-1].iterable):" % (len(self.P), var))
            idxvar = "_i%d" % (len(self.P) - 1)
            self.p(ind + 2, "LS[-1].index = %s" % idxvar)
            sub["loopdepth"] = scope["loopdepth"] + 1
            sub["sized"] = sized
            if depth + 1 < self.maxdepth and r.random() < 0.25:
                # the enclosing loop is mentioned ONLY through loop.parent inside a nested loop
                var2 = "y%d" % self.uid()
                self.ctl("for %s in (7, 8):" % var2)
                self.p(ind + 2, "LS.append(LR((7, 8), LS[-1] if LS else None))")
                self.p(ind + 2, "try:")
                self.p(ind + 3, "for _j%d, %s in enumerate(LS[-1].iterable):" % (len(self.P), var2))
                self.p(ind + 4, "LS[-1].index = _j%d" % (len(self.P) - 1))
                self.expr(ind + 4, "loop.parent.index", "cur(LS).parent.index")
                self.expr(ind + 4, "loop.parent.first", "cur(LS).parent.first")
                self.p(ind + 4, "marks.add('loopattr')")
                self.p(ind + 2, "finally:")
                self.p(ind + 3, "LS.pop()")
                self.ctl("endfor")
            else:
                # guaranteed read of a loop attribute so that Mako wraps this loop
                self.loopattr(ind + 2, sub, force_simple=True)
                self.body(ind + 2, depth + 1, sub)
            if r.random() < 0.3:
                # what `loop` means inside the else clause of the loop itself (exhausted inner loop or
                # the enclosing one) is left open by the statement: the clause never reads `loop`
                self.ctl("else:")
                self.p(ind + 1, "else:")
                self.body(ind + 2, depth + 1, dict(scope, loopdepth=0, noloopattr=True))
            self.p(ind, "finally:")
            self.p(ind + 1, "LS.pop()")
        else:
            # a loop that does not mention `loop`: Mako leaves it alone, `loop` inside still means the outer one
            self.p(ind, "for %s in %s:" % (var, it))
            sub["noloopattr"] = True
            self.body_noloop(ind + 1, depth + 1, sub)
            if r.random() < 0.3:
                self.ctl("else:")
                self.p(ind, "else:")
                self.body_noloop(ind + 1, depth + 1, dict(scope, noloopattr=True))
        self.ctl("endfor")

    def body_noloop(self, ind, depth, scope):
        # inside a for that must not reference `loop` anywhere in its subtree
        saved = self.layout.get("loop_outside")
        self.layout["loop_outside"] = False
        scope = dict(scope, loopdepth=0)
        self.body(ind, depth, scope)
        self.layout["loop_outside"] = saved

    def g_loopattr(self, ind, depth, scope):
        if scope.get("noloopattr"):
            return self.text(ind)
        self.loopattr(ind, scope)

    def loopattr(self, ind, scope, force_simple=False):
        r = self.r
        self.uses_loop = True
        attrs = ["index", "first", "even", "odd", "cycle('a', 'b', 'c')"]
        if scope.get("sized") and not force_simple:
            attrs += ["last", "reverse_index"]
        if not scope.get("sized") and scope["loopdepth"] and r.random() < 0.15 and not force_simple:
            attrs = ["last"]  # TypeError expected for generators
        a = r.choice(attrs)
        if scope["loopdepth"] >= 2 and r.random() < 0.3 and not force_simple:
            self.expr(ind, "loop.parent.index", "cur(LS).parent.index")
        elif r.random() < 0.15 and not force_simple:
            # the outermost loop has no parent; an inner one has (also after an inner loop ended by break / exception)
            self.expr(ind, "loop.parent is None", "cur(LS).parent is None")
            if scope["loopdepth"] >= 2:
                self.expr(ind, "loop.parent.parent is None", "cur(LS).parent.parent is None")
        else:
            self.expr(ind, "loop.%s" % a, "cur(LS).%s" % a)
        self.p(ind, "marks.add('loopattr')")

    def g_while(self, ind, depth, scope):
        w = "w%d" % self.uid()
        n = self.r.randint(0, 3)
        self.code(ind, ["%s = 0" % w])
        self.ctl("while %s < %d:" % (w, n))
        self.p(ind, "while %s < %d:" % (w, n))
        self.code(ind + 1, ["%s += 1" % w])
        self.body(ind + 1, depth + 1, dict(scope, vars=scope["vars"] + [w], inloop=True, noloopattr=scope.get("noloopattr")))
        self.ctl("endwhile")

    def g_try(self, ind, depth, scope):
        r = self.r
        self.ctl("try:")
        self.p(ind, "try:")
        self.body(ind + 1, depth + 1, dict(scope))
        if r.random() < 0.7:
            self.g_raise(ind + 1, depth, scope, kinds=["ValueError", "IndexError", "ZeroDivisionError"])
        if r.random() < 0.35:
            # several except clauses, as in Python: the first that matches is taken
            for pre in r.sample(["KeyError", "ValueError", "(IndexError, OSError)", "ZeroDivisionError"], r.randint(1, 2)):
                self.ctl("except %s:" % pre)
                self.p(ind, "except %s:" % pre)
                self.p(ind + 1, "marks.add('exception')")
                self.p(ind + 1, "marks.add('several-excepts')")
                self.body(ind + 1, depth + 1, dict(scope))
        kind = r.choice(["ValueError", "(IndexError, ZeroDivisionError)", "Exception"])
        named = r.random() < 0.5
        self.ctl("except %s%s:" % (kind, " as err_" if named else ""))
        self.p(ind, "except %s%s:" % (kind, " as err_" if named else ""))
        self.p(ind + 1, "marks.add('exception')")
        if named:
            self.expr(ind + 1, "type(err_).__name__")
        self.body(ind + 1, depth + 1, dict(scope))
        if scope["loopdepth"] and not scope.get("noloopattr"):
            self.loopattr(ind + 1, dict(scope, sized=False), force_simple=True)
        # `% finally:` is not generated: the statement lists try/except, and Mako's control-line
        # analysis rejects the keyword ("Unsupported control keyword: 'finally'")
        self.ctl("endtry")

    def g_with(self, ind, depth, scope):
        v = "cm%d" % self.uid()
        self.ctl("with nc(7) as %s:" % v)
        self.p(ind, "with nc(7) as %s:" % v)
        self.body(ind + 1, depth + 1, dict(scope, vars=scope["vars"] + [v]))
        self.ctl("endwith")

    def g_break(self, ind, depth, scope):
        c = self.cond(scope)
        kw = self.r.choice(["break", "continue"])
        self.ctl("if %s:" % c)
        self.p(ind, "if %s:" % c)
        self.code(ind + 1, [kw])
        self.P.pop()  # statement after break/continue is unreachable; no newline is written either
        self.P.insert(len(self.P) - 1, "    " * (ind + 1) + "marks.add('break')")
        self.ctl("endif")

    def g_return(self, ind, depth, scope):
        c = self.cond(scope)
        self.ctl("if %s:" % c)
        self.p(ind, "if %s:" % c)
        # a bare `return` makes a def return None, which the calling ${} would print: inside defs only
        # the documented `return STOP_RENDERING` is generated
        self.t("<% return STOP_RENDERING %>" if (scope["in_def"] or self.r.random() < 0.5) else "<% return %>")
        self.p(ind + 1, "marks.add('return')")
        self.p(ind + 1, "raise Stop()" if not scope["in_def"] else "return ''")
        self.ctl("endif")

    def g_raise(self, ind, depth, scope, kinds=None):
        r = self.r
        kind = r.choice(kinds or ["ValueError", "KeyError"])
        c = self.cond(scope)
        self.ctl("if %s:" % c)
        self.p(ind, "if %s:" % c)
        if kind == "IndexError":
            self.expr(ind + 1, "[][1]")
        elif kind == "ZeroDivisionError":
            self.expr(ind + 1, "1 // 0")
        else:
            self.t("<% raise " + kind + "('boom') %>")
            self.p(ind + 1, "raise %s('boom')" % kind)
        self.ctl("endif")

    def g_defcall(self, ind, depth, scope):
        if scope["in_def"] or len(self.defs) >= 3:
            return self.text(ind)
        name = "d%d" % len(self.defs)
        arg = self.r.choice(scope["vars"])
        sub = Gen(self.r, self.maxdepth, self.layout)
        sub.n = self.n + 100 * (len(self.defs) + 1)
        sub.defs = [None, None, None]  # no nested def calls
        sub.body(1, depth + 1, {"loopdepth": 0, "in_def": True, "vars": ["p", "a", "b"], "inloop": False})
        self.uses_loop |= sub.uses_loop
        self.defs.append((name, sub.T, sub.P))
        self.t("${%s(%s)}" % (name, arg))
        self.p(ind, "%s(%s)" % (name, arg))
        self.p(ind, "out.append(NL)")


MODEL_PRELUDE = """
def model(ctx, out, marks, LR, Stop, cur, nc, NL):
    a = ctx['a']; b = ctx['b']; c = ctx['c']
    it_list = ctx['it_list']; it_tuple = ctx['it_tuple']; it_str = ctx['it_str']; it_empty = ctx['it_empty']; it_one = ctx['it_one']
    it_gen = ctx['it_gen']; it_side = ctx['it_side']; it_fail = ctx['it_fail']
    acc = ctx['acc']
    STOP_RENDERING = ''
    LS = []
"""


def build(r, maxdepth, layout):
    g = Gen(r, maxdepth, layout)
    g.body(1, 0, {"loopdepth": 0, "in_def": False, "vars": ["a", "b", "c"], "inloop": False})
    if r.random() < 0.3:
        # `loop` after all loops ended, at top level: no loop context
        g.layout["loop_outside"] = True
        g.loopattr(1, {"loopdepth": 0, "sized": False}, force_simple=True)
    eol = layout["eol"]
    tlines = list(g.T)
    plines = [MODEL_PRELUDE]
    for name, T, P in g.defs:
        tlines.append('<%%def name="%s(p)">' % name)
        tlines += T
        tlines.append("</%def>")
        plines.append("    def %s(p):" % name)
        plines.append("        LS = []")
        plines.append("        out.append(NL)  # the line end after the opening <%def> tag belongs to the def body")
        plines += ["    " + ln for ln in P]
        plines.append("        return ''")
    # defs must exist before use in the model
    tail = ["    out.append(NL)  # line end after </%def>"] * len(g.defs)
    src = "\n".join(plines) + "\n" + "\n".join(g.P + tail) + "\n    return out\n"
    text = eol.join(tlines) + (eol if tlines else "")
    return text, src, g


def cur(LS):
    if not LS:
        raise NoLoop()
    return LS[-1]


def make_ctx():
    import contextlib

    def it_gen():
        yield 5
        yield 6
        yield 7

    acc = []

    def it_side():
        # a lazy iterable whose production is observable: each item is noted when it is PULLED, so a loop that
        # takes one item per iteration interleaves these notes with what its body notes
        for k_ in (1, 2, 3):
            acc.append("pull%d" % k_)
            yield k_

    def it_fail():
        yield 1
        acc.append("second-pulled")
        yield 2
        raise KeyError("third pull fails")

    return {"a": 2, "b": 0, "c": 5, "it_list": [1, 2, 3], "it_tuple": (4, 0), "it_str": "ab", "it_empty": [], "it_one": [9],
            "it_gen": it_gen, "it_side": it_side, "it_fail": it_fail, "acc": acc, "nc": contextlib.nullcontext}


def run_one(text, src, res, rc, strictness=None):
    T = _st["Template"]
    ex = _st["exceptions"]
    ctx = make_ctx()
    ns = {}
    try:
        exec(compile(src, "<model>", "exec"), ns)
    except SyntaxError as e:
        res.violate("harness", "model does not compile: %s\n%s" % (e, src))
        return None
    marks = set()
    out = []
    try:
        ns["model"](ctx, out, marks, LR, Stop, cur, ctx["nc"], rc.get("eol", "\n"))
        expected = ("out", "".join(out))
    except Stop:
        expected = ("out", "".join(out))
    except NoLoop:
        expected = ("exc", "RuntimeException")
    except Exception as e:
        expected = ("exc", type(e).__name__)
    res.evaluations += 1
    ctx2 = make_ctx()
    try:
        t = T(text)
    except Exception as e:
        res.violate("compile-raises", "template\n%s\nraised %s: %s" % (text, type(e).__name__, e), replay_case=rc)
        return None
    try:
        compile(t.code, "<generated>", "exec")
        res.count("code_compiles")
    except SyntaxError as e:
        res.violate("generated-code-does-not-compile", "template\n%s\n%s" % (text, e), replay_case=rc)
    try:
        got = ("out", t.render_unicode(**ctx2))
    except Exception as e:
        got = ("exc", type(e).__name__)
    res.count("renders_compared")
    for m in marks:
        res.count({"loopattr": "loop_attribute_reads", "exception": "exception_paths", "return": "return_paths", "break": "break_paths",
                   "several-excepts": "several_except_clauses_taken"}[m])
    if got != expected or ctx2["acc"] != ctx["acc"]:
        res.violate(
            "control-semantics",
            "template\n%s\ngives %r (acc=%r)\nequivalent Python gives %r (acc=%r)\nmodel:\n%s" % (text, got, ctx2["acc"], expected, ctx["acc"], src[len(MODEL_PRELUDE):]),
            replay_case=rc,
        )
    return marks


LAYOUTS = [
    {"ctl_indent": 0, "tight": False, "margin": "", "eol": "\n"},
    {"ctl_indent": 1, "tight": True, "margin": "    ", "eol": "\n"},
    {"ctl_indent": 2, "tight": False, "margin": "\t", "eol": "\r\n"},
    {"ctl_indent": 1, "tight": False, "margin": "            ", "eol": "\n"},
]


def run_batch(case, res):
    r = common.rng_for(case["seed"], "c03", case["index"])
    for j in range(case["n"]):
        seed2 = r.getrandbits(48)
        depth = r.choice(case["depths"])
        first = None
        for li in r.sample(range(len(LAYOUTS)), 3):
            r2 = common.rng_for(seed2)
            text, src, g = build(r2, depth, dict(LAYOUTS[li]))
            rc = {"kind": "one", "text": text, "model": src}
            rc["eol"] = LAYOUTS[li]["eol"]
            marks = run_one(text, src, res, rc)
            if marks is None:
                break
            if marks & {"loopattr", "exception", "return", "break"}:
                res.nontrivial("c03", text)
            if first is None:
                first = text
        if res.sample is None and first:
            res.sample = {"template": first[:600]}


def run_enable_loop(res):
    T = _st["Template"]
    import types as _t

    body = "% for x in (1, 2):\n${loop.index}|\n% endfor\n"
    fake = _t.SimpleNamespace(index="CTX")
    cases = [
        (body, {}, {}, "0|\n1|\n"),
        (body, {"enable_loop": False}, {"loop": fake}, "CTX|\nCTX|\n"),
        ('<%page enable_loop="True"/>\n' + body, {"enable_loop": False}, {}, "\n0|\n1|\n"),
        ("${loop}", {"enable_loop": False}, {"loop": "plain"}, "plain"),
        ("<% loop = 5 %>${loop}", {"enable_loop": False}, {}, "5"),
        ("% for loop in (1, 2):\n${loop}\n% endfor\n", {"enable_loop": False}, {}, "1\n2\n"),
    ]
    # the full matrix: Template/TemplateLookup option x <%page enable_loop=...> (the page attribute, when written,
    # decides; otherwise the option; the default is on)
    for opt in (None, True, False):
        for page in (None, "True", "False"):
            eff = (page == "True") if page is not None else (opt is not False)
            if page == "False" and opt is not False:
                # the page switches the loop context off in a template whose option has it on: whether `loop` may then
                # be passed to render() is not stated (the reserved names still list it): not asserted
                continue
            kw = {} if opt is None else {"enable_loop": opt}
            head = "" if page is None else '<%%page enable_loop="%s"/>\n' % page
            pre = "\n" if head else ""
            # (with the loop context on, `loop` is a reserved name and may not be passed to render)
            cases.append((head + body, kw, {} if eff else {"loop": fake}, pre + ("0|\n1|\n" if eff else "CTX|\nCTX|\n")))
            if not eff:
                cases.append((head + "${loop}", kw, {"loop": "plain"}, pre + "plain"))
                cases.append((head + "<%def name=\"d()\">${loop}</%def>${d()}", kw, {"loop": "plain"}, pre + "plain"))
    for text, kw, ctx, exp in cases:
        res.evaluations += 1
        res.count("enable_loop_variants")
        for via in ("Template", "TemplateLookup"):
            try:
                if via == "Template":
                    out = T(text, **kw).render_unicode(**ctx)
                else:
                    lk = _st["TemplateLookup"](**kw)
                    lk.put_string("el.html", text)
                    out = lk.get_template("el.html").render_unicode(**ctx)
            except Exception as e:
                out = "%s: %s" % (type(e).__name__, e)
            if out != exp:
                res.violate("enable-loop", "template %r with %r (through %s) rendered %r, expected %r" % (text, kw, via, out, exp))
        res.nontrivial("el", text, sorted(kw))


def _loopvals(n):
    """index, first, last, even, odd, reverse_index per iteration of a sized iterable of length n"""
    return [dict(index=i, first=(i == 0), last=(i == n - 1), even=(i % 2 == 0), odd=(i % 2 == 1), reverse_index=n - i - 1) for i in range(n)]


def run_unloopable(res):
    """a `% for` over something that cannot be iterated (None; an object whose __iter__ raises) fails like the Python
    statement, the `% try` around it catches that, and `loop` afterwards means what it meant before the failed loop"""
    T = _st["Template"]

    class BadIter:
        def __iter__(self):
            raise ValueError("no iteration today")

    shapes = [
        ("then a top-level loop", "% try:\n% for a in bad:\n${loop.index}${a}\n% endfor\n% except (TypeError, ValueError):\ncaught\n% endtry\n% for b in 'xy':\n${loop.index}${loop.parent is None}${b}\n% endfor\n",
         "caught0Truex1Truey"),
        ("inside an outer loop", "% for o in 'pq':\n% try:\n% for a in bad:\n${loop.index}${a}\n% endfor\n% except (TypeError, ValueError):\n[${loop.index}${o}${loop.parent is None}]\n% endtry\n<${loop.index}${loop.last}>\n% endfor\n",
         "[0pTrue]<0False>[1qTrue]<1True>"),
        ("in a def called from a loop", '<%def name="d()">\\\n% try:\n% for a in bad:\n${loop.index}\n% endfor\n% except (TypeError, ValueError):\nc\n% endtry\n% for z in "k":\n${loop.index}${loop.parent is None}\n% endfor\n</%def>\\\n% for o in "pq":\n${d()}${loop.index}${o}\n% endfor\n',
         "c0True0pc0True1q"),
        ("twice, then nested loops", "% for n in (1, 2):\n% try:\n% for a in bad:\n${loop.index}\n% endfor\n% except (TypeError, ValueError):\nc${n}\n% endtry\n% endfor\n% for x in 'ab':\n% for y in 'c':\n${loop.parent.index}${loop.index}${loop.parent.parent is None}\n% endfor\n% endfor\n",
         "c1c200True10True"),
    ]
    for name, text, want in shapes:
        for label, bad in (("None", None), ("an object whose __iter__ raises", BadIter()), ("an int", 7)):
            res.evaluations += 1
            res.count("unloopable_renders")
            try:
                got = "".join(T(text).render_unicode(bad=bad).split())
            except Exception as e:
                got = "%s: %s" % (type(e).__name__, e)
            if got != want:
                res.violate("loop-after-failed-loop", "a %% for over %s inside %% try, %s: template %r rendered %r, expected %r" % (label, name, text, got, want),
                            witness="% for whose iterable cannot be iterated, caught, then loops that read loop.*")
        res.nontrivial("unloopable", name)


def run_loop_closures(res):
    """`loop` read inside a construct that is written inside the `% for` body but compiled as a closure of the
    enclosing callable (anonymous block, nested def, body of a call with content, def nested in such a body): it is
    textually inside the loop, so it reports the innermost enclosing loop - whether or not the loop body also reads
    `loop` directly, in the template body and inside a def alike.  Output is compared with whitespace removed."""
    T = _st["Template"]
    closures = {
        "anon-block": ("", "<%block>[{R}]</%block>"),
        "call-body": ('<%def name="cd()">${caller.body()}</%def>', '<%call expr="cd()">[{R}]</%call>'),
        "ns-call-body": ('<%def name="cd()">${caller.body()}${caller.body()}</%def>', "<%self:cd>[{R}]</%self:cd>"),
        "def-in-call-body": ('<%def name="cd()">${caller.nx()}</%def>', '<%call expr="cd()"><%def name="nx()">[{R}]</%def></%call>'),
        "if-in-call-body": ('<%def name="cd()">${caller.body()}</%def>', '<%call expr="cd()">\n% if True:\n[{R}]\n% endif\n</%call>'),
    }
    nested_def = "<%def name=\"inner()\">[{R}]</%def>${{inner()}}"
    attrs = ["index", "first", "last", "even", "odd", "reverse_index"]
    iters = [("(10, 20, 30)", 3), ("'ab'", 2), ("[7]", 1), ("range(4)", 4)]
    k = 0
    for where in ("body", "def"):
        for cname, (pre, tmpl) in list(closures.items()) + [("nested-def", ("", nested_def))]:
            if cname == "nested-def" and where == "body":
                continue  # a def written at body level is a top-level def, not a closure: it has no loop
            for outside in (False, True):
                for two_levels in (False, True):
                    k += 1
                    attr = attrs[k % len(attrs)]
                    it, n = iters[k % len(iters)]
                    if two_levels:
                        # inner loop (2 items) inside the outer one: the closure reads the inner loop and its parent
                        read = "${loop.%s}/${loop.parent.%s}/${loop.parent.parent is None}" % (attr, attr)
                        inner = tmpl.replace("{R}", read).replace("${{", "${").replace("}}", "}")
                        lines = ["% for o in " + it + ":", ("${loop.index}" if outside else "") + "", "% for i in (5, 6):",
                                 ("<${loop.index}>" if outside else "") + inner, "% endfor", "% endfor"]
                        exp = ""
                        for ov in _loopvals(n):
                            exp += str(ov["index"]) if outside else ""
                            for iv in _loopvals(2):
                                reps = 2 if cname == "ns-call-body" else 1
                                exp += ("<%d>" % iv["index"] if outside else "") + ("[%s/%s/True]" % (iv[attr], ov[attr])) * reps
                    else:
                        read = "${loop.%s}" % attr
                        inner = tmpl.replace("{R}", read).replace("${{", "${").replace("}}", "}")
                        lines = ["% for o in " + it + ":", ("<${loop.index}>" if outside else "") + inner, "% endfor"]
                        exp = ""
                        for ov in _loopvals(n):
                            reps = 2 if cname == "ns-call-body" else 1
                            exp += ("<%d>" % ov["index"] if outside else "") + ("[%s]" % ov[attr]) * reps
                    loop_text = "\n".join(lines) + "\n"
                    if where == "body":
                        text = pre + "\n" + loop_text
                    else:
                        text = pre + '\n<%def name="encl()">\n' + loop_text + "</%def>${encl()}\n"
                    res.evaluations += 1
                    res.count("loop_closure_renders")
                    try:
                        got = "".join(T(text).render_unicode().split())
                    except Exception as e:
                        got = "%s: %s" % (type(e).__name__, e)
                    if got != exp:
                        res.violate(
                            "loop-in-closure",
                            "`loop` read inside %s written in a `%% for` body (%s; loop body %s `loop` itself): template\n%s\nrendered %r, "
                            "the innermost enclosing loop gives %r" % (cname, where, "also reads" if outside else "does not read", text, got, exp),
                        )
                    res.nontrivial("lc", text)
    # `loop` read ONLY in an attribute of a tag written in the loop body (call expression, <%ns:def> attribute,
    # include file/args, filter= of <%text> / <%block>, default of a nested def)
    pre = ('<%! \ndef mk(i):\n    return lambda s: s + "~" + str(i)\n%>' '<%def name="f(i)">[f${i}]${caller.body() if caller else ""}</%def>')
    attr_sites = {
        "call-expr": ('<%call expr="f(loop.index)">B</%call>', "[f%d]B"),
        "ns-call-attribute": ('<%self:f i="${loop.index}"/>', "[f%d]"),
        "ns-call-attribute-mixed": ('<%self:f i="n${str(loop.index)}"/>', "[fn%d]"),
        "include-args": ('<%include file="inc.html" args="i=loop.index"/>', "[inc%d]"),
        "include-file-expression": ("<%include file=\"${'inc.html' if loop.index >= 0 else None}\" args=\"i=7\"/>", "[inc7]"),
        "text-filter": ('<%text filter="mk(loop.index)">t</%text>', "t~%d"),
        "block-filter": ('<%block filter="mk(loop.index)">b</%block>', "b~%d"),
        "expression-filter-argument": ('${"e" | mk(loop.index)}', "e~%d"),
    }
    for sname, (frag, fmt) in attr_sites.items():
        for where in ("body", "def"):
            for outside in (False, True):
                loop_text = "% for o in 'abc':\n" + ("<${loop.index}>" if outside else "") + frag + "\n% endfor\n"
                text = pre + "\n" + (loop_text if where == "body" else '<%def name="encl()">\n' + loop_text + "</%def>${encl()}\n")
                exp = "".join(("<%d>" % i if outside else "") + (fmt % i if "%d" in fmt else fmt) for i in range(3))
                lk = _st["TemplateLookup"]()
                lk.put_string("inc.html", '<%page args="i"/>[inc${i}]')
                lk.put_string("t.html", text)
                res.evaluations += 1
                res.count("loop_closure_renders")
                try:
                    got = "".join(lk.get_template("t.html").render_unicode().split())
                except Exception as e:
                    got = "%s: %s" % (type(e).__name__, e)
                if got != exp:
                    res.violate("loop-in-tag-attribute", "`loop` read in %s of a tag written in a `%% for` body (%s; loop body %s `loop` itself): template\n%s\nrendered %r, "
                                "expected %r" % (sname, where, "also reads" if outside else "does not read", text, got, exp))
                res.nontrivial("la", text)


def gen_cases(tier, seed):
    yield {"kind": "enable_loop"}
    yield {"kind": "loop_closures"}
    n = 6000 if tier == "quick" else 80000
    depths = [1, 2, 2, 3] if tier == "quick" else [2, 3, 4, 5]
    per = 40
    for i in range(n // per):
        yield {"kind": "batch", "seed": seed, "index": i, "n": per, "depths": depths}


def run_case(case):
    res = common.CaseResult()
    if case["kind"] == "batch":
        run_batch(case, res)
    elif case["kind"] == "enable_loop":
        run_enable_loop(res)
    elif case["kind"] == "loop_closures":
        run_loop_closures(res)
        run_unloopable(res)
    elif case["kind"] == "one":
        run_one(case["text"], case["model"], res, case)
    return res

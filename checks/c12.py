"""C12 - runtime tracebacks and compile warnings map to template lines.

Planting: documents are assembled from units whose line numbers are kept by the assembler itself; one
raising call (harness function `boom`, unique tag) is planted per case at a candidate position:
expression (single / multi-line), control-line condition, a chosen line of a <% %> block, a chosen
line of a <%! %> block (raises while the module is imported), def body, nested def, call body, named
and anonymous block body, filter function, decorator, included / inherited / namespace templates.
In the handler RichTraceback().records is examined: innermost template frame and every planted
call-site frame must carry the right template identity, source and line; frames of plain Python
modules must be unchanged; the text and HTML error templates and format_exceptions output must show
the planted line.  Warnings: compile-time SyntaxWarnings and warnings.warn() in <%! %> must be shown
exactly once with the template's name and line, on every construction path.
"""
import html
import os
import re
import shutil
import sys
import tempfile
import time
import traceback
import warnings

from mk import common

PROPERTY = "C12"
LEVEL = "exploration"
RULE = (
    "documents: 2-8 filler units (text, expressions, control blocks, code blocks, defs, comments, CRLF or LF) "
    "around one planted construct; positions {expr, multi-line expr, control line, code-block line k, module-block "
    "line k, def body, nested def, call body, named block, anonymous block, filter function, decorator, include "
    "target, inherited base, inheriting child, namespace def} x construction paths {string via lookup, file, "
    "file via lookup, module directory first load, module directory reload}; warnings: {'is' with a literal, "
    "invalid escape, warnings.warn in <%! %>} x filter actions {always, once, error} x paths. distinct = "
    "(document text, position, path); non-trivial = the planted line is beyond line 1 and at least one "
    "call-site frame lies in a template."
)
RULE += ' added since: positions for-iterable, loop body, elif/while tests, <%call expr>, tag attribute, include file expression, functions of a first and second <%! %> block (also through a namespace), relay back through caller.body(); warnings from literal comparisons, invalid escapes in for iterables, def bodies and module blocks; relative module_directory / module_filename; alternating frames of two templates. module directory reached through a symbolic link. the format_exceptions page through render() with an output encoding. filler holding U+2028, U+2029, U+0085, FF, VT, FS-US (line breaks for str.splitlines only). edit-and-recompile into the same module file within one process (traceback, text page, compile warning). the failing line as last line of a source without final newline on the HTML / format_exceptions page.'
ASSUMPTIONS = [
    "generated glue frames that correspond to no construct (def stubs, cache wrappers) are only required to carry "
    "the right template identity and a line inside the source",
    "pygments markup of the HTML page is ignored: tags are stripped and entities decoded before looking for the line",
]
MIN_NONTRIVIAL = 200
REQUIRED_COUNTERS = ["tracebacks_checked", "callsite_frames_checked", "python_frames_checked", "text_error_pages", "html_error_pages", "format_exceptions_pages", "warnings_cases", "multi_template_tracebacks"]
REQUIRED_COUNTERS += ["edit_and_recompile_rounds"]
REQUIRED_COUNTERS += ["last_line_pages"]
RULE += " form feed, VT, FS, NEL, U+2028/2029 inside literals and comments of the code block that raises."
RULE += " a template whose first construction fails in its module-level code (formatted), corrected, then raising at render time."
RULE += " a magic encoding comment as first line of three in ten documents."
RULE += " module-level warnings when an up-to-date module file is reused for a template file at another path (copied directory, second spelling of the path)."
REQUIRED_COUNTERS += ["warning_reused_module_loads", "failed_first_loads"]

_st = {}


class Planted(Exception):
    pass


def setup_worker():
    from mako import exceptions
    from mako.lookup import TemplateLookup
    from mako.template import Template

    helper = type(sys)("verif_c12_helper")

    def boom(tag="x"):
        raise Planted(tag)

    def bfilter(s):
        raise Planted("in-filter")

    def rdec(fn):
        def decorate(context, *a, **kw):
            raise Planted("in-decorator")

        return decorate

    def warn_here(msg):
        warnings.warn(msg, UserWarning, stacklevel=2)

    helper.boom, helper.bfilter, helper.rdec, helper.warn_here = boom, bfilter, rdec, warn_here
    sys.modules["verif_c12_helper"] = helper
    _st.update(Template=Template, TemplateLookup=TemplateLookup, exceptions=exceptions, tmp=tempfile.mkdtemp(prefix="c12-"), n=0)
    import atexit

    atexit.register(lambda: shutil.rmtree(_st["tmp"], ignore_errors=True))


IMPORTS = ["from verif_c12_helper import boom, bfilter, rdec, warn_here"]


class Doc:
    """assembles text and keeps the line of every unit"""

    def __init__(self, nl):
        self.nl = nl
        self.parts = []

    def line(self):
        return "".join(self.parts).count("\n") + 1

    def add(self, text):
        ln = self.line()
        self.parts.append(text)
        return ln

    def text(self):
        return "".join(self.parts)


FILL = [
    lambda r, nl: "text %d" % r.randrange(99) + nl,
    lambda r, nl: "a ${'value'} b" + nl,
    lambda r, nl: "% if True:" + nl + "  inside" + nl + "% endif" + nl,
    lambda r, nl: "<%" + nl + "    fq_ = 1" + nl + "    fr_ = 2" + nl + "%>" + nl,
    lambda r, nl: "## comment line" + nl,
    lambda r, nl: nl + nl,
    lambda r, nl: "## comment then a blank line" + nl + nl,
    lambda r, nl: "<%doc>" + nl + "doc" + nl + "</%doc>" + nl,
    lambda r, nl: "multi" + nl + "line" + nl,
    lambda r, nl: "% for fi_ in (1, 2):" + nl + "${fi_}" + nl + "% endfor" + nl,
    # characters that str.splitlines() takes for line breaks but neither Python nor Mako does: they do not move lines
    lambda r, nl: "${'a\u2028b'} sep" + nl,
    lambda r, nl: "x ${\"p\u2029q\" + '\x85'} y" + nl,
    lambda r, nl: "% if 'v\x0cw\x1c':" + nl + "  in\x0bside \x1d\x1e" + nl + "% endif" + nl,
    lambda r, nl: "plain \u2028 text \x0c and \x85" + nl,
    lambda r, nl: "<%text>t\u2028\x0c</%text>${'\u2029' + '\x1c'}" + nl,
]


def filler(r, d, n):
    for _ in range(n):
        d.add(r.choice(FILL)(r, d.nl))


def build(r, pos, nl):
    """-> dict(templates={uri: text}, top=uri, chain=[(uri, line)] outermost first (call sites then the
    planted line), construct_raises=bool (exception already at construction))"""
    main = Doc(nl)
    T = {"templates": {}, "top": "/main.html", "construct": False, "pyframe": None}
    if r.random() < 0.3:
        # a magic encoding comment is a line of the template like any other
        main.add("## -*- coding: utf-8 -*-" + nl)
    filler(r, main, r.randint(0, 4))
    chain = []
    M = "/main.html"
    if pos == "expr":
        pre = r.choice(["", "some text "])
        ln = main.add(pre + "${boom('T')} tail" + nl)
        chain = [(M, ln)]
    elif pos == "expr-multiline":
        ln = main.add("${ (1," + nl + "    boom('T')," + nl + "    3) }" + nl)
        chain = [(M, ln)]
    elif pos == "control":
        ln = main.add("% if boom('T'):" + nl + "x" + nl + "% endif" + nl)
        chain = [(M, ln)]
    elif pos in ("for-iterable", "for-iterable-loop"):
        # with `loop` used in the body the iterable is evaluated on a generated line of its own, before the `for`
        ln = main.add("% for q_ in boom('T'):" + nl + ("${loop.index}:${q_}" if pos == "for-iterable-loop" else "${q_}") + nl + "% endfor" + nl)
        chain = [(M, ln)]
    elif pos == "loop-body":
        ln = main.add("% for q_ in (1, 2):" + nl + "text in the loop" + nl + "${loop.index} ${boom('T')}" + nl + "% endfor" + nl)
        chain = [(M, ln + 2)]
    elif pos == "elif-test":
        ln = main.add("% if False:" + nl + "x" + nl + "% elif boom('T'):" + nl + "y" + nl + "% endif" + nl)
        chain = [(M, ln + 2)]
    elif pos == "while-test":
        ln = main.add("% while boom('T'):" + nl + "x" + nl + "% endwhile" + nl)
        chain = [(M, ln)]
    elif pos == "call-expr":
        ln = main.add('<%call expr="boom(\'T\')">' + nl + "body" + nl + "</%call>" + nl)
        chain = [(M, ln)]
    elif pos == "tag-attr":
        ln = main.add("before" + nl + '<%self:e1 a="${boom(\'T\')}"/>' + nl) + 1
        main.add('<%def name="e1(a)">' + nl + "${a}" + nl + "</%def>" + nl)
        chain = [(M, ln)]
    elif pos == "include-file-expr":
        ln = main.add('<%include file="${boom(\'T\')}"/>' + nl)
        chain = [(M, ln)]
    elif pos == "second-module-function":
        # two <%! %> blocks with other lines between them; the function that raises is defined in the second
        main.add("<%!" + nl + "    first_ = 1" + nl + "%>" + nl)
        main.add("between one" + nl + "between two" + nl)
        filler(r, main, r.randint(0, 2))
        lb = main.add("<%!" + nl + "    def mfn2_(a):" + nl + "        boom('T')" + nl + "        return a" + nl + "%>" + nl) + 2
        lc = main.add("call ${mfn2_(1)}" + nl)
        chain = [(M, lc), (M, lb)]
    elif pos in ("module-function", "module-function-ns"):
        # a function defined in a <%! %> block, called from the body; the template may also carry a namespace tag
        # (which adds generated code between the module block and the render functions)
        if pos == "module-function-ns":
            main.add('<%namespace name="m_" module="os.path"/>' + nl)
        lb = main.add("<%!" + nl + "    def mfn_(a):" + nl + "        x_ = a" + nl + "        boom('T')" + nl + "        return x_" + nl + "%>" + nl) + 3
        filler(r, main, r.randint(0, 2))
        lc = main.add("call ${mfn_(1)}" + nl)
        chain = [(M, lc), (M, lb)]
    elif pos in ("code-line", "module-line"):
        n = r.randint(2, 5)
        k = r.randrange(n)
        lines = ["cv%d = %d" % (i, i) for i in range(n)]
        for i in range(n):
            if r.random() < 0.3:
                # characters that str.splitlines() takes for line ends but Python does not, inside literals and comments
                lines[i] = r.choice(["cv%d = 'a\x0cb'", "cv%d = 'x\u2028y\u2029z'", "cv%d = 1  # page\x0cbreak \x0b \x1c", "cv%d = 'n\x85l'"]) % i
        lines[k] = "boom('T')"
        lead = r.choice([1, 1, 2])
        margin = r.choice(["", "    ", "        "])
        opener = "<%" if pos == "code-line" else "<%!"
        ln = main.add(opener + nl * lead + nl.join(margin + x for x in lines) + nl + "%>" + nl)
        chain = [(M, ln + lead + k)]
        T["construct"] = pos == "module-line"
    elif pos in ("def", "nested-def"):
        lcall = main.add("call: ${f1()}" + nl)
        filler(r, main, r.randint(0, 2))
        ldef = main.add('<%def name="f1()">' + nl)
        main.add("def text" + nl)
        if pos == "def":
            lb = main.add("${boom('T')}" + nl)
            main.add("</%def>" + nl)
            chain = [(M, lcall), (M, lb)]
        else:
            lc2 = main.add("${inner()}" + nl)
            main.add('<%def name="inner()">' + nl + "inner text" + nl)
            lb = main.add("<% boom('T') %>" + nl)
            main.add("</%def>" + nl + "</%def>" + nl)
            chain = [(M, lcall), (M, lc2), (M, lb)]
    elif pos == "call-body":
        lcall = main.add('<%call expr="w()">' + nl)
        main.add("body text" + nl)
        lb = main.add("${boom('T')}" + nl)
        main.add("</%call>" + nl)
        filler(r, main, r.randint(0, 2))
        main.add('<%def name="w()">' + nl + "w text" + nl)
        lw = main.add("[${caller.body()}]" + nl)
        main.add("</%def>" + nl)
        chain = [(M, lcall), (M, lw), (M, lb)]
    elif pos in ("block", "anon-block"):
        lblock = main.add(('<%block name="blk">' if pos == "block" else "<%block>") + nl)
        main.add("block text" + nl)
        lb = main.add("${boom('T')}" + nl)
        main.add("</%block>" + nl)
        chain = [(M, lblock), (M, lb)]
        T["block_invocation"] = lblock
    elif pos == "filter":
        ln = main.add("x ${'v' | bfilter} y" + nl)
        chain = [(M, ln)]
        T["pyframe"] = "bfilter"
    elif pos == "decorator":
        ln = main.add("dec: ${g1()}" + nl)
        main.add('<%def name="g1()" decorator="rdec">' + nl + "never" + nl + "</%def>" + nl)
        chain = [(M, ln)]
        T["pyframe"] = "decorate"
    elif pos == "relay-back":
        # main -> a def of the other template -> back into a def of main, which raises: the frames alternate between
        # the two templates, and each carries its own template's source
        other = Doc(nl)
        filler(r, other, r.randint(0, 3))
        O = "/sub/other.html"
        main.parts.insert(0, '<%namespace name="ns" file="/sub/other.html"/>' + nl)
        main.add('<%def name="boomer()">' + nl + "before" + nl)
        lb = main.add("${boom('T')}" + nl)
        main.add("</%def>" + nl)
        filler(r, main, r.randint(0, 2))
        lm = main.add("relay: ${ns.relay(boomer)}" + nl)
        other.add('<%def name="relay(f)">' + nl + "in relay" + nl)
        lo = other.add("${f()}" + nl)
        other.add("</%def>" + nl)
        chain = [(M, lm), (O, lo), (M, lb)]
        filler(r, other, r.randint(0, 2))
        T["templates"][O] = other.text()
    elif pos in ("include", "namespace-def", "inherit-base", "inherit-child"):
        other = Doc(nl)
        filler(r, other, r.randint(0, 3))
        O = "/sub/other.html"
        if pos == "include":
            lm = main.add('<%include file="/sub/other.html"/>' + nl)
            lo = other.add("inc ${boom('T')}" + nl)
            chain = [(M, lm), (O, lo)]
        elif pos == "namespace-def":
            main.parts.insert(0, '<%namespace name="ns" file="/sub/other.html"/>' + nl)
            lm = main.add("ns: ${ns.nd()}" + nl)
            other.add('<%def name="nd()">' + nl + "nd text" + nl)
            lo = other.add("<%" + nl + "    boom('T')" + nl + "%>" + nl) + 1
            other.add("</%def>" + nl)
            chain = [(M, lm), (O, lo)]
        elif pos == "inherit-base":
            main.parts.insert(0, '<%inherit file="/sub/other.html"/>' + nl)
            main.add("child body" + nl)
            lo = other.add("base ${boom('T')}" + nl)
            other.add("${next.body()}" + nl)
            chain = [(O, lo)]
        else:
            main.parts.insert(0, '<%inherit file="/sub/other.html"/>' + nl)
            lm = main.add("child ${boom('T')}" + nl)
            other.add("base start" + nl)
            lo = other.add("${next.body()}" + nl)
            chain = [(O, lo), (M, lm)]
        filler(r, other, r.randint(0, 2))
        T["templates"][O] = other.text()
    filler(r, main, r.randint(0, 3))
    T["templates"][M] = main.text()
    T["chain"] = chain
    return T


# (a raise in a <%! %> block happens while the Template is constructed, before it can be rendered: out of scope)
POSITIONS = ["expr", "expr-multiline", "control", "module-function", "module-function-ns", "second-module-function", "for-iterable", "for-iterable-loop", "loop-body", "elif-test", "while-test", "call-expr", "tag-attr",
             "include-file-expr", "code-line", "def", "nested-def", "call-body", "block", "anon-block",
             "filter", "decorator", "relay-back", "include", "namespace-def", "inherit-base", "inherit-child"]
PATHS = ["put_string", "file-lookup", "moddir-first", "moddir-reload", "moddir-relative", "modfile-relative", "moddir-symlink"]


def make_lookup(spec, path, d, **kw):
    L = _st["TemplateLookup"]
    ids = {}
    if path == "put_string":
        lk = L(imports=IMPORTS, **kw)
        for uri, text in spec["templates"].items():
            ids[uri] = uri
        return lk, ids, lambda: [lk.put_string(u, t) for u, t in sorted(spec["templates"].items(), key=lambda x: x[0] != "/sub/other.html")]
    root = os.path.join(d, "root")
    for uri, text in spec["templates"].items():
        fp = os.path.join(root, uri.lstrip("/"))
        os.makedirs(os.path.dirname(fp), exist_ok=True)
        with open(fp, "w", newline="") as f:
            f.write(text)
        ids[uri] = fp
    if path.startswith("moddir"):
        kw["module_directory"] = os.path.join(d, "mods")
        if path == "moddir-symlink":
            # the module directory is reached through a symbolic link (a linked cache directory)
            real = os.path.join(d, "mods-real")
            os.makedirs(real, exist_ok=True)
            if not os.path.islink(os.path.join(d, "mods")):
                os.symlink(real, os.path.join(d, "mods"))
        if path == "moddir-relative":
            # a module directory given relative to the working directory (Python makes module paths absolute itself)
            kw["module_directory"] = os.path.relpath(kw["module_directory"], os.getcwd())
    if path == "modfile-relative":
        # module files named by a callable that answers with paths relative to the working directory
        base = os.path.relpath(os.path.join(d, "mf"), os.getcwd())
        kw["modulename_callable"] = lambda filename, uri: os.path.join(base, uri.strip("/").replace("/", "__") + ".py")
    lk = L(directories=[root], imports=IMPORTS, **kw)
    return lk, ids, lambda: None


def strip_html(s):
    s = re.sub(r"<style>.*?</style>", "", s, flags=re.S)
    s = re.sub(r"<[^>]+>", "", s)
    return html.unescape(s)


def run_traceback_case(r, pos, path, nl, res):
    ex = _st["exceptions"]
    spec = build(r, pos, nl)
    _st["n"] += 1
    d = os.path.join(_st["tmp"], "t%d" % _st["n"])
    os.makedirs(d)
    rc = {"kind": "tb", "spec": spec, "path": path, "pos": pos}
    shown = "\n".join("--- %s\n%s" % (u, t) for u, t in sorted(spec["templates"].items()))
    what = "raise planted at %s (%s), path %s, expected template frames %r\n%s" % (pos, spec["chain"][-1], path, spec["chain"], shown)
    try:
        lk, ids, put = make_lookup(spec, path, d)
        if path == "moddir-reload" and not spec["construct"]:
            # first a lookup that generates the module files, then a fresh one that loads them
            put()
            lk.get_template(spec["top"])
            for u in spec["templates"]:
                lk.get_template(u)
            lk, ids, put = make_lookup(spec, path, d)
        res.evaluations += 1
        try:
            put()
            t = lk.get_template(spec["top"])
            t.render_unicode()
            res.violate("planted-raise-not-reached", what, replay_case=rc)
            return
        except Planted:
            et, ev, tb = sys.exc_info()
            rt = ex.RichTraceback()
            raw = traceback.extract_tb(tb)
            try:
                text_page = ex.text_error_template().render_unicode()
            except Exception as e2:
                text_page = "<<text_error_template raised %r>>" % (e2,)
            try:
                html_page = ex.html_error_template().render_unicode()
            except Exception as e2:
                html_page = "<<html_error_template raised %r>>" % (e2,)
        except Exception as e:
            res.violate("wrong-exception", "%s\nraised %s: %s" % (what, type(e).__name__, e), replay_case=rc)
            return
        res.count("tracebacks_checked")
        recs = rt.records
        if len(recs) != len(raw):
            res.violate("records-lost", "%s\n%d records for %d raw frames" % (what, len(recs), len(raw)), replay_case=rc)
        trecs = [x for x in recs if x[4] is not None]
        src_of = {ids[u]: t for u, t in spec["templates"].items()}
        # every template frame: right identity, source, line inside the source
        for x in trecs:
            if x[4] not in src_of:
                res.violate("frame-identity", "%s\nframe %r reported against %r, known templates %r" % (what, x[2], x[4], sorted(src_of)), replay_case=rc)
                continue
            if x[7] != src_of[x[4]]:
                res.violate("frame-source", "%s\nframe %r of %r carries another source" % (what, x[2], x[4]), replay_case=rc)
            nlines = src_of[x[4]].count("\n") + 1
            if not (0 <= x[5] <= nlines):
                res.violate("frame-line-out-of-range", "%s\nframe %r line %r of %d" % (what, x[2], x[5], nlines), replay_case=rc)
        # expected chain: in order, each (template, line) must appear
        idx = 0
        got_chain = [(x[4], x[5], x[2]) for x in trecs]
        for k, (uri, line) in enumerate(spec["chain"]):
            want = (ids[uri], line)
            found = None
            for j in range(idx, len(got_chain)):
                if got_chain[j][:2] == want:
                    found = j
                    break
            res.count("callsite_frames_checked")
            if found is None:
                last = k == len(spec["chain"]) - 1
                fid = None
                if not last and pos in ("block", "anon-block") and k == 0 and any(
                        g[0] == ids[uri] and g[2] == "render_body" for g in got_chain[idx:]):
                    # recogniser: the body frame that invokes the block is there, under the right template and function,
                    # but carries the line of a neighbouring construct (no source line is recorded for the invocation);
                    # a missing frame, or one under another template, is still a VIOLATION
                    fid = "C12/block-invocation-frame-line"
                kind = "innermost-frame-line" if last else "call-site-frame-line"
                res.violate(
                    kind + "-" + pos,
                    "%s\nno template frame for %s line %d after position %d; template frames are %r" % (what, uri, line, idx, got_chain),
                    finding=fid, witness="exception inside a <%block>: the frame that invokes the block is reported at another line than the <%block> tag" if fid else pos,
                    replay_case=rc,
                )
            else:
                idx = found + 1
                x = trecs[found]
                exp_line = src_of[x[4]].split("\n")[line - 1]
                if x[6] != exp_line:
                    res.violate("frame-line-text", "%s\nframe line text %r, template line is %r" % (what, x[6], exp_line), replay_case=rc)
        # innermost template frame is the planted one
        if trecs and (trecs[-1][4], trecs[-1][5]) != (ids[spec["chain"][-1][0]], spec["chain"][-1][1]) and not spec["pyframe"]:
            pass  # already reported by the chain walk when missing
        if rt.lineno != spec["chain"][-1][1] or rt.source != src_of[ids[spec["chain"][-1][0]]]:
            res.violate("richtraceback-lineno-" + pos, "%s\nRichTraceback.lineno=%r (expected %d) / source mismatch" % (what, rt.lineno, spec["chain"][-1][1]), replay_case=rc)
        # python frames unchanged
        for x, rw in zip(recs, raw):
            if x[4] is None:
                res.count("python_frames_checked")
                if (x[0], x[1], x[2]) != (rw.filename, rw.lineno, rw.name):
                    res.violate("python-frame-changed", "%s\n%r vs raw %r" % (what, x[:3], (rw.filename, rw.lineno, rw.name)), replay_case=rc)
        if spec["pyframe"] and not any(x[4] is None and x[2] == spec["pyframe"] for x in recs):
            res.violate("python-frame-missing", "%s\nno python frame %r" % (what, spec["pyframe"]), replay_case=rc)
        # error pages
        uri, line = spec["chain"][-1]
        ltxt = src_of[ids[uri]].split("\n")[line - 1].strip()
        res.count("text_error_pages")
        needle = 'File "%s", line %d' % (ids[uri], line)
        if needle not in text_page:
            res.violate("text-error-page", "%s\ntext error template lacks %r:\n%s" % (what, needle, text_page[-600:]), replay_case=rc)
        else:
            after = text_page[text_page.index(needle) + len(needle):].split("\n")
            if len(after) < 2 or after[1].strip() != ltxt.strip():
                res.violate("text-error-page-line", "%s\nline after %r is %r, template line is %r" % (what, needle, after[1:2], ltxt), replay_case=rc)
        # EVERY frame that belongs to a template must be shown under the template's own name and line,
        # also glue frames and frames that map to a blank template line
        tb4 = rt.traceback
        for x, shown_rec in zip(recs, tb4):
            if x[4] is None:
                continue
            if tuple(shown_rec[:2]) != (x[4], x[5]):
                res.violate("template-frame-shown-raw", "%s\nframe %r of template %s line %d is shown as %r" % (what, x[2], x[4], x[5], shown_rec), witness=pos, replay_case=rc)
            if ('File "%s", line %d' % (x[4], x[5])) not in text_page:
                res.violate("text-error-page-frame", "%s\ntext error template lacks the frame %s line %d (function %s)" % (what, x[4], x[5], x[2]), witness=pos, replay_case=rc)
            if x[0] != x[4] and ('File "%s"' % x[0]) in text_page:
                res.violate("text-error-page-raw-module", "%s\ntext error template shows the generated module %r" % (what, x[0]), witness=pos, replay_case=rc)
        res.count("html_error_pages")
        plain = strip_html(html_page)
        needle2 = "%s, line %d:" % (ids[uri], line)
        if needle2 not in plain:
            res.violate("html-error-page", "%s\nHTML error template lacks %r" % (what, needle2), replay_case=rc)
        # format_exceptions
        if not spec["construct"]:
            lk2, ids2, put2 = make_lookup(spec, path, d, format_exceptions=True)
            try:
                put2()
                page = lk2.get_template(spec["top"]).render_unicode()
                res.count("format_exceptions_pages")
                if needle2 not in strip_html(page) or "Planted" not in page:
                    res.violate("format-exceptions-page", "%s\nformat_exceptions output lacks %r" % (what, needle2), replay_case=rc)
                # the same page through render() with an output encoding (bytes): it names the same file and line
                lk3, ids3, put3 = make_lookup(spec, path, d, format_exceptions=True, output_encoding="utf-8")
                put3()
                pageb = lk3.get_template(spec["top"]).render()
                pageb = pageb.decode("utf-8", "replace") if isinstance(pageb, bytes) else "<<render() returned %s>>" % type(pageb).__name__
                res.count("format_exceptions_pages")
                if needle2 not in strip_html(pageb) or "Planted" not in pageb:
                    res.violate("format-exceptions-page", "%s\nformat_exceptions output of render() (bytes) lacks %r: %r" % (what, needle2, strip_html(pageb)[:200]), replay_case=rc)
            except Exception as e:
                res.violate("format-exceptions-raises", "%s\n%s: %s" % (what, type(e).__name__, e), replay_case=rc)
        if len({u for u, _ in spec["chain"]}) > 1:
            res.count("multi_template_tracebacks")
        if spec["chain"][-1][1] > 1 and len(spec["chain"]) >= 1:
            res.nontrivial("c12", shown, pos, path)
        if res.sample is None:
            res.sample = {"position": pos, "path": path, "expected_frames": spec["chain"], "template": spec["templates"]["/main.html"][:300]}
    finally:
        shutil.rmtree(d, ignore_errors=True)


# ------------------------------------------------------------------ warnings
WARNERS = {
    "is-literal": ("${1 is 1}", SyntaxWarning),
    "invalid-escape": ("${len('\\d')}", SyntaxWarning),
    "code-is-literal": ("<%\n    wq_ = 1\n    wr_ = (wq_ is 1)\n%>", SyntaxWarning),
    "module-warn": ("<%!\n    mw_ = 1\n    warn_here('planted-warning')\n%>", UserWarning),
    "module-warn-ns": ("<%namespace name=\"m_\" module=\"os.path\"/>\n<%!\n    mw_ = 1\n    warn_here('planted-warning')\n%>", UserWarning),
    "module-warn-second": ("<%!\n    first_ = 1\n%>\nbetween one\nbetween two\n<%!\n    mw_ = 1\n    warn_here('planted-warning')\n%>", UserWarning),
    "control-is-literal": ("% if 1 is 1:\nx\n% endif", SyntaxWarning),
    "for-iterable-escape": ("% for wi_ in ('\\d',):\n${wi_}\n% endfor", SyntaxWarning),
    "for-iterable-escape-loop": ("% for wi_ in ('\\d',):\n${loop.index}${wi_}\n% endfor", SyntaxWarning),
    "def-body-is-literal": ("<%def name=\"wd_()\">\nline\n${2 is 2}\n</%def>", SyntaxWarning),
}


def run_warning_case(r, wname, action, path, nl, res):
    ex = _st["exceptions"]
    L = _st["TemplateLookup"]
    construct, cat = WARNERS[wname]
    d0 = Doc(nl)
    if r.random() < 0.3:
        d0.add("## -*- coding: utf-8 -*-" + nl)
    filler(r, d0, r.randint(0, 4))
    construct = construct.replace("\n", nl)
    ln = d0.add(construct + nl)
    off = {"is-literal": 0, "invalid-escape": 0, "code-is-literal": 2, "module-warn": 2, "module-warn-ns": 3, "module-warn-second": 7, "def-body-is-literal": 2}.get(wname, 0)
    line = ln + off
    filler(r, d0, r.randint(0, 2))
    text = d0.text()
    _st["n"] += 1
    d = os.path.join(_st["tmp"], "w%d" % _st["n"])
    os.makedirs(d)
    spec = {"templates": {"/main.html": text}, "top": "/main.html", "construct": True}
    rc = {"kind": "warn", "text": text, "line": line, "wname": wname, "action": action, "path": path}
    what = "warning %s expected at line %d, filter action %s, path %s\n%s" % (wname, line, action, path, text)
    res.count("warnings_cases")
    res.evaluations += 1
    try:
        if path == "moddir-reload":
            with warnings.catch_warnings():
                warnings.simplefilter("ignore")
                lk0, ids0, put0 = make_lookup(spec, "moddir-first", d)
                put0()
                lk0.get_template("/main.html")
        with warnings.catch_warnings(record=True) as rec:
            warnings.resetwarnings()
            warnings.simplefilter(action)
            getattr(warnings, "onceregistry", {}).clear()
            lk, ids, put = make_lookup(spec, path, d)
            raised = None
            try:
                put()
                t = lk.get_template("/main.html")
                t.render_unicode()
            except Warning as e:
                raised = e
            except Exception as e:
                if action == "error":
                    raised = e  # CPython turns a SyntaxWarning into a SyntaxError under the 'error' action
                else:
                    res.violate("warning-case-raises", "%s\n%s: %s" % (what, type(e).__name__, e), replay_case=rc)
                    return
        mine = [w for w in rec if issubclass(w.category, cat) and ("planted-warning" in str(w.message) or cat is SyntaxWarning)]
        if action == "error":
            if raised is None and not (path == "moddir-reload" and cat is SyntaxWarning):
                res.violate("warning-not-raised", "%s\nfilter action 'error' but construction succeeded" % what, replay_case=rc)
            if len(mine) > 0:
                res.violate("warning-shown-and-raised", "%s\nshown %d times although raised" % (what, len(mine)), replay_case=rc)
            return
        expect = 1
        if path == "moddir-reload" and cat is SyntaxWarning:
            expect = None  # the module file was byte-compiled... no: PYTHONDONTWRITEBYTECODE; it is compiled again - see below
        if expect is None:
            expect = 1
        if len(mine) != expect:
            res.violate("warning-count-" + wname, "%s\nshown %d times (%r), expected exactly once" % (what, len(mine), [(w.filename, w.lineno) for w in mine]), replay_case=rc)
            return
        w = mine[0]
        if w.filename != ids["/main.html"]:
            res.violate("warning-filename", "%s\nshown against %r, template is %r" % (what, w.filename, ids["/main.html"]), replay_case=rc)
        if w.lineno != line:
            res.violate("warning-line-" + wname, "%s\nshown at line %r" % (what, w.lineno), replay_case=rc)
        res.nontrivial("c12w", text, wname, action, path)
    finally:
        shutil.rmtree(d, ignore_errors=True)


def run_warning_reused_module(res):
    """the module file of a template is up to date and REUSED for a template file at another path - the same URI
    served from a copied directory (times preserved) sharing the module directory, or a second spelling of one path -
    and its module-level code warns as it is loaded: the warning is shown against the template being loaded now"""
    import warnings as _w

    T = _st["Template"]
    L = _st["TemplateLookup"]
    text = "first\n<%!\n    mw_ = 1\n    warn_here('planted-warning')\n%>\nbody ${mw_}\n"
    for how in ("copied-directory-lookup", "copied-directory-template", "second-spelling"):
        _st["n"] += 1
        d = os.path.join(_st["tmp"], "r%d" % _st["n"])
        r1, r2, mods = os.path.join(d, "release1"), os.path.join(d, "release2"), os.path.join(d, "mods")
        os.makedirs(os.path.join(r1, "sub"))
        try:
            with open(os.path.join(r1, "page.html"), "w") as f:
                f.write(text)
            old = time.time() - 100
            os.utime(os.path.join(r1, "page.html"), (old, old))
            shutil.copytree(r1, r2)   # (copy2: the times are kept, the module file stays newer than either source)
            if how == "second-spelling":
                names = [os.path.join(r1, "sub", "..", "page.html"), os.path.join(r1, "page.html"), os.path.join(r1, "sub", "..", "page.html")]
            else:
                names = [os.path.join(r1, "page.html"), os.path.join(r2, "page.html"), os.path.join(r1, "page.html")]
            for k, fn_ in enumerate(names):
                res.evaluations += 1
                res.count("warning_reused_module_loads")
                what = "%s, load %d: template file %s, module directory shared" % (how, k + 1, fn_[len(d):])
                with _w.catch_warnings(record=True) as rec:
                    _w.resetwarnings()
                    _w.simplefilter("always")
                    try:
                        if how == "copied-directory-lookup":
                            t = L(directories=[os.path.dirname(fn_)], module_directory=mods, imports=IMPORTS).get_template("/page.html")
                        else:
                            t = T(filename=fn_, uri="/page.html", module_directory=mods, imports=IMPORTS)
                        out = t.render_unicode()
                    except Exception as e:
                        res.violate("warning-case-raises", "%s: %s: %s" % (what, type(e).__name__, e))
                        continue
                mine = [w for w in rec if "planted-warning" in str(w.message)]
                if out != "first\n\nbody 1\n":
                    res.violate("warning-case-raises", "%s: rendered %r" % (what, out))
                if len(mine) != 1:
                    res.violate("warning-count-module-warn", "%s: shown %d times (%r), expected exactly once" % (what, len(mine), [(w.filename, w.lineno) for w in mine]))
                    continue
                w = mine[0]
                if w.filename != t.filename or w.lineno != 4:
                    res.violate("warning-filename", "%s: shown against %s:%s, the template being loaded is %s (line 4)" % (what, w.filename, w.lineno, t.filename),
                                witness="module file generated from one template file, reused for another")
            res.nontrivial("warning-reused-module", how)
        finally:
            shutil.rmtree(d, ignore_errors=True)


def run_edit_and_recompile(res):
    """a module-directory template whose traceback (and compile warning) was already formatted once is EDITED - lines
    are inserted above the failing one - and compiled again into the same module file, in the same process: the next
    traceback and warning report the lines of the new text"""
    import time as _time
    import warnings as _w

    ex = _st["exceptions"]
    L = _st["TemplateLookup"]
    for shift in (1, 3, 6):
        _st["n"] += 1
        d = os.path.join(_st["tmp"], "e%d" % _st["n"])
        root = os.path.join(d, "root")
        os.makedirs(root)
        fp = os.path.join(root, "main.html")
        try:
            def write(extra):
                text = "".join("filler %d\n" % k for k in range(extra)) + "first\n${len('\\d')}\n<%\n    y_ = 1\n    boom('T')\n%>\nlast\n"
                with open(fp, "w") as f:
                    f.write(text)
                t_ = _time.time() + (10 if extra else 0)
                os.utime(fp, (t_, t_))
                return extra + 5, extra + 2, text.split("\n")

            for round_, extra in enumerate((0, shift)):
                line, wline, lines = write(extra)
                lk = L(directories=[root], module_directory=os.path.join(d, "mods"), imports=IMPORTS)
                res.evaluations += 1
                res.count("edit_and_recompile_rounds")
                what = "main.html %s (raise on line %d, invalid escape on line %d), module directory reused" % ("as first written" if not extra else "edited: %d lines inserted on top" % extra, line, wline)
                with _w.catch_warnings(record=True) as caught:
                    _w.simplefilter("always")
                    try:
                        lk.get_template("/main.html").render_unicode()
                        res.violate("harness", "%s: the planted raise did not happen" % what)
                        continue
                    except Exception:
                        rt = ex.RichTraceback()
                        page = ex.text_error_template().render_unicode()
                if rt.lineno != line or (rt.source or "").split("\n")[line - 1:line] != [lines[line - 1]]:
                    res.violate("richtraceback-after-recompile", "%s: RichTraceback reports line %r, source line %r" % (what, rt.lineno, (rt.source or "").split("\n")[rt.lineno - 1:rt.lineno]))
                if ('File "%s", line %d' % (fp, line)) not in page:
                    res.violate("text-error-page-after-recompile", "%s: the text error template lacks line %d:\n%s" % (what, line, page[-400:]))
                ws = [(w_.filename, w_.lineno) for w_ in caught if issubclass(w_.category, (SyntaxWarning, DeprecationWarning))]
                if ws and ws != [(fp, wline)]:
                    res.violate("warning-after-recompile", "%s: compile warning shown at %r, expected %r" % (what, ws, [(fp, wline)]))
            res.nontrivial("edit-recompile", shift)
        finally:
            shutil.rmtree(d, ignore_errors=True)


def run_failed_first_load(res):
    """the module-level code of a template raises while the Template is constructed, and that failure is formatted;
    the file is then corrected, loads, and raises while rendering: this second traceback maps to the template like any
    other (what was learnt while formatting the first one does not stick to the module's name or file)"""
    import time as _time

    ex = _st["exceptions"]
    L = _st["TemplateLookup"]
    T = _st["Template"]
    for path in ("lookup", "lookup-moddir", "template-moddir", "template-file"):
        _st["n"] += 1
        d = os.path.join(_st["tmp"], "f%d" % _st["n"])
        root = os.path.join(d, "root")
        os.makedirs(root)
        pname = "page_ff%d.html" % _st["n"]   # (a name no other scenario of this process uses)
        fp = os.path.join(root, pname)
        try:
            def load():
                if path == "lookup":
                    return L(directories=[root], imports=IMPORTS).get_template("/" + pname)
                if path == "lookup-moddir":
                    return L(directories=[root], module_directory=os.path.join(d, "mods"), imports=IMPORTS).get_template("/" + pname)
                if path == "template-moddir":
                    return T(filename=fp, module_directory=os.path.join(d, "mods"), imports=IMPORTS)
                return T(filename=fp, imports=IMPORTS)

            with open(fp, "w") as f:
                f.write("first\n<%!\n    mlv_ = 1\n    boom('M')\n%>\nbody\n")
            res.evaluations += 1
            res.count("failed_first_loads")
            try:
                load()
                res.violate("harness", "path %s: the planted module-level raise did not happen" % path)
                continue
            except Exception:
                # (formatted, as an application would; what it shows for a template that never came to life is not asserted)
                ex.RichTraceback()
                ex.text_error_template().render_unicode()
            with open(fp, "w") as f:
                f.write("first\nsecond\n<%!\n    mlv_ = 1\n%>\n<%\n    y_ = 2\n    boom('T')\n%>\nbody\n")
            t_ = _time.time() + 10
            os.utime(fp, (t_, t_))
            try:
                load().render_unicode()
                res.violate("harness", "path %s: the planted raise did not happen" % path)
                continue
            except Exception:
                rt = ex.RichTraceback()
                page = ex.text_error_template().render_unicode()
            if rt.lineno != 8 or (rt.source or "").split("\n")[7:8] != ["    boom('T')"]:
                res.violate("richtraceback-after-failed-first-load", "path %s: the corrected template raises on line 8: RichTraceback reports line %r, source line %r, records %r" % (
                    path, rt.lineno, (rt.source or "").split("\n")[(rt.lineno or 1) - 1:rt.lineno], [(r_[4], r_[5]) for r_ in rt.records][-4:]),
                    witness="a template whose first construction failed at module level")
            if ('File "%s", line 8' % fp) not in page:
                res.violate("text-error-page-after-failed-first-load", "path %s: the text error template lacks line 8 of %s:\n%s" % (path, fp, page[-400:]))
            res.nontrivial("failed-first-load", path)
        finally:
            shutil.rmtree(d, ignore_errors=True)


def run_last_line(res):
    """the failing line is the LAST line of a source that does not end in a newline: the HTML error page (explicit and
    through format_exceptions) shows it in its source excerpt exactly as it does for the same text with a final newline"""
    ex = _st["exceptions"]
    L = _st["TemplateLookup"]
    for body in ("one\ntwo\nthree\n${boom('T')} z", "${boom('T')}", "a\n<%\n    q_ = 1\n    boom('T')\n%>", "x\n% if True:\n${boom('T')}\n% endif"):
        pages = {}
        for tail in ("", "\n"):
            for path in ("put_string", "file-lookup", "moddir-first"):
                _st["n"] += 1
                d = os.path.join(_st["tmp"], "l%d" % _st["n"])
                os.makedirs(d)
                try:
                    spec = {"templates": {"/main.html": body + tail}, "top": "/main.html"}
                    outs = []
                    for fe in (False, True):
                        lk, ids, put = make_lookup(spec, path, d, **({"format_exceptions": True} if fe else {}))
                        put()
                        try:
                            page = lk.get_template("/main.html").render_unicode()
                        except Exception:
                            page = ex.html_error_template().render_unicode()
                        plain = " ".join(strip_html(page).split())
                        outs.append(plain.count("boom('T')"))
                    pages[(tail, path)] = outs
                    res.evaluations += 1
                    res.count("last_line_pages")
                finally:
                    shutil.rmtree(d, ignore_errors=True)
        for path in ("put_string", "file-lookup", "moddir-first"):
            if pages[("", path)] != pages[("\n", path)] or min(pages[("", path)]) < 2:
                res.violate("html-error-page-last-line", "template %r raising on its last line, path %s: the failing line appears %r times on the HTML page / the format_exceptions page; "
                            "with a final newline added %r times (frame list + source excerpt)" % (body, path, pages[("", path)], pages[("\n", path)]))
        res.nontrivial("last-line", body)


def gen_cases(tier, seed):
    yield {"kind": "edit-recompile"}
    yield {"kind": "last-line"}
    n = 40 if tier == "quick" else 400
    for i in range(n):
        for pos in POSITIONS:
            yield {"kind": "tb", "seed": seed, "index": i, "pos": pos}
    nw = 10 if tier == "quick" else 100
    for i in range(nw):
        for wname in WARNERS:
            yield {"kind": "warn", "seed": seed, "index": i, "wname": wname}


def run_case(case):
    res = common.CaseResult()
    if case["kind"] == "last-line":
        run_last_line(res)
    elif case["kind"] == "edit-recompile":
        run_edit_and_recompile(res)
        run_warning_reused_module(res)
        run_failed_first_load(res)
    elif case["kind"] == "tb" and "spec" not in case:
        r = common.rng_for(case["seed"], "c12", case["index"], case["pos"])
        for path in PATHS:
            nl = r.choice(["\n", "\n", "\r\n"])
            run_traceback_case(r, case["pos"], path, nl, res)
    elif case["kind"] == "warn" and "text" not in case:
        r = common.rng_for(case["seed"], "c12w", case["index"], case["wname"])
        for action in ("always", "once", "error"):
            for path in PATHS:
                run_warning_case(r, case["wname"], action, path, r.choice(["\n", "\r\n"]), res)
    return res

"""C09 - template lookup never escapes its configured directories.

Observations per lookup operation (direct get_template/has_template, and <%include>, <%inherit>,
<%namespace>, get_namespace, get_template, include_file issued from calling templates at depth
0..3):
  (i)   a returned Template's realpath'ed filename lies under a configured root;
  (ii)  sys.addaudithook file events during the operation: nothing outside the roots / module
        directory / Python installation is opened, nothing outside module_directory is created;
  (iii) the canary text stored in every outside file never shows up in output or Template.source;
  (iv)  only TemplateLookupException (incl. TopLevelLookupException) is raised.
"""
import itertools
import os
import shutil
import sys
import tempfile
import zlib

from mk import common

PROPERTY = "C09"
LEVEL = "exploration"
EXHAUSTIVE = {"quick": True, "thorough": True}
RULE = (
    "URIs = leading x segments joined by separators, enumerated exhaustively: segments over "
    "{file.html, sub, .., ., empty, ..file.html, file.html.., ..\\x, rootx, other} ; quick: <=4 "
    "segments with one separator style per URI from {/, //, \\, \\/} and <=3 segments with every "
    "per-join separator mix; thorough: <=6 uniform, <=4 mixed; leading in {none, /, //, \\, ../, ..\\}. "
    "Each URI is looked up directly (get_template + has_template) and, for the <=3 (quick) / <=4 "
    "(thorough) segment set, through 12 tag/API forms (three with the URI written literally in the tag, three of them calling the API of a named file namespace, which resolves against that namespace) from calling templates at depth 0..3, under "
    "rotating configurations (module_directory on/off, 5 root spellings, 1 or 2 roots). "
    "distinct = by URI string (sharded by hash, de-duplicated); non-trivial = the URI, resolved "
    "independently with posixpath against the caller, leaves the root (an escape attempt) or "
    "contains a dot segment / backslash / doubled slash and resolves inside."
)
RULE += ' added since: absolute URIs that name a path outside every root (with and without the root as textual prefix), and an explicit assertion that every escaping URI is rejected (escape-not-rejected) both directly and through tags. lookups rooted outside loading the same URIs in the same process, before and after ours.'
ASSUMPTIONS = [
    "symlinks inside a root are not part of the statement",
    "the empty URI is not exercised through tags (adjust_uri indexes uri[0])",
    "audit events cover open/os.mkdir/os.rename/os.remove/os.rmdir/shutil.*/tempfile.mkstemp",
]
MIN_NONTRIVIAL = 1000
REQUIRED_COUNTERS = ["direct_lookups", "absolute_outside_path_uris", "returned_inside", "rejected", "tag_renders", "audit_events_seen", "module_files_written"]
REQUIRED_COUNTERS += ["foreign_module_loads"]
RULE += "; a third of the lookup configurations carry an include_error_handler that swallows errors (a rejected URI still raises)"
REQUIRED_COUNTERS += ["rejected_with_include_error_handler"]
SHARDED_GEN = True

SEGS = ["file.html", "sub", "..", ".", "", "..file.html", "file.html..", "..\\x", "rootx", "other"]
SEPS = ["/", "//", "\\", "\\/"]
LEADS = ["", "/", "//", "\\", "../", "..\\"]
CANARY = "CANARY-OUTSIDE"
ROOT_SPELLINGS = ["plain", "slash", "dot", "subdot", "relative"]
TAGFORMS = ["include", "inherit", "namespace", "api_get_namespace", "api_get_template", "api_include_file",
            "nsapi_get_namespace", "nsapi_get_template", "nsapi_include_file"]
LITFORMS = ["lit_include", "lit_inherit", "lit_namespace"]
# the nsapi_* callers reach /lib.html as a named namespace and call ITS api: the URI resolves against /lib.html
# ("relative to the uri of the namespace itself", Namespace.get_namespace), wherever the caller lives

_st = {}
_audit = {"on": False, "events": []}


def _hook(event, args):
    if not _audit["on"]:
        return
    if event in ("open", "os.mkdir", "os.rename", "os.remove", "os.rmdir", "tempfile.mkstemp", "shutil.move", "shutil.copyfile", "os.link", "os.symlink"):
        _audit["events"].append((event, args))


def setup_worker():
    from mako import exceptions
    from mako.lookup import TemplateLookup

    base = tempfile.mkdtemp(prefix="c09-")
    base = os.path.realpath(base)
    _st.update(base=base, exceptions=exceptions, TemplateLookup=TemplateLookup, lookups={})
    os.chdir(base)
    for d in ("root/sub/sub/sub", "root2/sub", "rootx/sub", "other/sub", "mods"):
        os.makedirs(os.path.join(base, d))

    def w(rel, text):
        with open(os.path.join(base, rel), "w") as f:
            f.write(text)

    for rel in ("file.html", "sub/file.html", "sub/sub/file.html", "sub/sub/sub/file.html",
                "..file.html", "file.html..", "sub/..file.html", "sub/file.html.."):
        w("root/" + rel, "IN:%s\n" % rel)
    for rel in ("file.html", "sub/file.html"):
        w("root2/" + rel, "IN2:%s\n" % rel)
    # outside files at every place a traversal could land
    for rel in ("outside.html", "file.html", "sub", "rootx/file.html", "rootx/sub/file.html", "rootx/..file.html",
                "other/file.html", "other/sub/file.html", "x", "rootx/x", "other/x", "..file.html", "file.html.."):
        p = os.path.join(base, rel)
        if not os.path.isdir(p):
            w(rel, CANARY + ":" + rel + "\n")
    _st["tmp_canary"] = None
    # callers at depth 0..3
    for depth in range(4):
        d = "root/" + "sub/" * depth
        w(d + "c_include.html", 'C[<%include file="${u}"/>]')
        w(d + "c_inherit.html", '<%inherit file="${context[\'u\']}"/>CHILD')
        w(d + "c_namespace.html", '<%namespace name="n" file="${context[\'u\']}"/>C[${n.body()}]')
        w(d + "c_api_get_namespace.html", "C[${local.get_namespace(u).body()}]")
        w(d + "c_api_get_template.html", "C[${local.get_template(u).render()}]")
        w(d + "c_api_include_file.html", "C[<% local.include_file(u) %>]")
        w(d + "c_nsapi_get_namespace.html", '<%namespace name="lib" file="/lib.html"/>C[${lib.get_namespace(u).body()}]')
        w(d + "c_nsapi_get_template.html", '<%namespace name="lib" file="/lib.html"/>C[${lib.get_template(u).render()}]')
        w(d + "c_nsapi_include_file.html", '<%namespace name="lib" file="/lib.html"/>C[<% lib.include_file(u) %>]')
    w("root/lib.html", "IN:lib\n")
    sys.addaudithook(_hook)
    import atexit

    atexit.register(cleanup)


def cleanup():
    shutil.rmtree(_st["base"], ignore_errors=True)


def get_lookup(cfg):
    key = tuple(sorted(cfg.items()))
    lk = _st["lookups"].get(key)
    if lk is not None and lk[1] < 3000:
        lk[1] += 1
        return lk[0]
    base = _st["base"]
    sp = cfg["root"]
    r1 = {
        "plain": base + "/root", "slash": base + "/root/", "dot": base + "/./root",
        "subdot": base + "/root/sub/..", "relative": "root",
    }[sp]
    dirs = [r1] + ([base + "/root2"] if cfg["two"] else [])
    kw = {}
    if cfg["moddir"]:
        kw["module_directory"] = base + "/mods"
    if cfg.get("ieh"):
        # a handler for errors raised WHILE an included template renders, which swallows them: a URI that cannot be
        # looked up is not such an error, and the boundary does not depend on the handler
        kw["include_error_handler"] = _swallow
    look = _st["TemplateLookup"](directories=dirs, collection_size=cfg.get("csize", -1), **kw)
    _st["lookups"][key] = [look, 0]
    return look


def inside(path, with_mods=False):
    base = _st["base"]
    rp = os.path.realpath(path)
    ok = [base + "/root", base + "/root2"] + ([base + "/mods"] if with_mods else [])
    return any(rp == r or rp.startswith(r + "/") for r in ok)


def audit_check(res, what):
    evs = _audit["events"]
    _audit["events"] = []
    base = _st["base"]
    for event, args in evs:
        res.count("audit_events_seen")
        if event == "open":
            path, mode, flags = args[0], args[1], args[2]
            if not isinstance(path, (str, bytes)):
                continue
            if isinstance(path, bytes):
                path = path.decode("utf-8", "replace")
            rp = os.path.realpath(path)
            writing = (mode and any(c in mode for c in "wax+")) or (isinstance(flags, int) and flags & (os.O_WRONLY | os.O_RDWR | os.O_CREAT))
            if writing:
                if not (rp.startswith(base + "/mods/")):
                    res.violate("write-outside-module-directory", "%s: opened %r for writing" % (what, path))
                else:
                    res.count("module_files_written")
            else:
                if rp.startswith(base + "/") or rp == _st["tmp_canary"]:
                    if not inside(rp, with_mods=True):
                        res.violate("read-outside-roots", "%s: opened %r for reading" % (what, path))
        else:
            paths = [a for a in args if isinstance(a, str)]
            for p in paths:
                rp = os.path.realpath(p)
                if not (rp.startswith(base + "/mods/") or rp == base + "/mods"):
                    res.violate("fs-mutation-outside-module-directory", "%s: %s%r" % (what, event, args))
                else:
                    res.count("module_files_written")


def expect_class(uri, caller_uri=None):
    """independent resolution: 'outside' | 'inside' | 'plain'"""
    import posixpath

    if caller_uri is not None and not uri.startswith("/"):
        # only a forward slash makes a URI absolute; one that begins with a backslash is relative to the caller
        u = (posixpath.dirname(caller_uri).rstrip("/") + "/" + uri).replace("\\", "/")
    else:
        u = uri.replace("\\", "/")
    u = u.lstrip("/")
    n = posixpath.normpath(u) if u else "."
    if n == ".." or n.startswith("../"):
        return "outside"
    if ".." in uri or "\\" in uri or "//" in uri or "/./" in uri or uri.startswith("./"):
        return "inside"
    return "plain"


def judge_template(t, res, what):
    if t.filename is None or not inside(t.filename):
        res.violate("template-outside-roots", "%s returned a template with filename %r" % (what, t.filename), witness=what)
        return False
    res.count("returned_inside")
    return True


def direct(look, uri, res, cfgname):
    ex = _st["exceptions"]
    what = "get_template(%r) [%s]" % (uri, cfgname)
    res.evaluations += 1
    res.count("direct_lookups")
    _audit["on"] = True
    t = None
    try:
        try:
            t = look.get_template(uri)
        except ex.TemplateLookupException:
            res.count("rejected")
        except Exception as e:
            res.violate("non-lookup-exception", "%s raised %s: %s" % (what, type(e).__name__, e), witness=what)
        try:
            h = look.has_template(uri)
        except Exception as e:
            h = None
            res.violate("non-lookup-exception", "has_template(%r) raised %s: %s" % (uri, type(e).__name__, e))
    finally:
        _audit["on"] = False
    audit_check(res, what)
    if t is not None:
        if judge_template(t, res, what):
            try:
                src = ""  # Template.source is C08's subject (module ids of distinct URIs can collide)
                out = t.render_unicode()
            except Exception as e:
                res.violate("inside-template-unusable", "%s: %s %s" % (what, type(e).__name__, e))
            else:
                if CANARY in out or CANARY in src:
                    res.violate("canary-in-output", "%s rendered %r" % (what, out), witness=what)
    if t is not None and expect_class(uri) == "outside":
        # independent normalisation says the URI climbs above the lookup root: that must be refused, even when the
        # clamped path happens to name a file inside a root
        res.violate("escape-not-rejected", "%s returned a template (%r) although the URI resolves above the root" % (what, t.filename), witness=what)
    if h is not None and h != (t is not None):
        res.violate("has-template-disagrees", "has_template(%r)=%r but get_template %s" % (uri, h, "returned" if t is not None else "raised"))
    return t is not None


def _swallow(context, error):
    context.write("[swallowed]")
    return True


def via_tag(look, uri, res, cfgname):
    ex = _st["exceptions"]
    hit = False
    for depth in range(4):
        cdir = "/" + "sub/" * depth
        for form in TAGFORMS + LITFORMS:
            curi = cdir + "c_%s.html" % form
            what = "%s from %s with u=%r [%s]" % (form, curi, uri, cfgname)
            res.evaluations += 1
            res.count("tag_renders")
            _audit["on"] = True
            out = None
            try:
                try:
                    if form in LITFORMS:
                        # the URI is written literally into the tag (no ${}), in a caller registered under curi
                        if '"' in uri:
                            continue
                        look.put_string(curi, {"lit_include": 'C[<%%include file="%s"/>]', "lit_inherit": '<%%inherit file="%s"/>CHILD',
                                               "lit_namespace": '<%%namespace name="n" file="%s"/>C[${n.body()}]'}[form] % uri)
                    caller = look.get_template(curi)
                    out = caller.render_unicode(u=uri)
                except ex.TemplateLookupException:
                    res.count("rejected")
                    if "include_error_handler" in cfgname:
                        res.count("rejected_with_include_error_handler")
                except RecursionError:
                    res.count("self_inclusion")
                except Exception as e:
                    res.violate("non-lookup-exception", "%s raised %s: %s" % (what, type(e).__name__, e), witness=what)
            finally:
                _audit["on"] = False
            audit_check(res, what)
            if out is not None:
                hit = True
                if expect_class(uri, "/lib.html" if form.startswith("nsapi_") else curi) == "outside":
                    res.violate("escape-not-rejected", "%s rendered %r although the URI resolves above the root" % (what, out[:60]), witness=what)
                if CANARY in out:
                    res.violate("canary-in-output", "%s rendered %r" % (what, out), witness=what)
                elif "IN" not in out:
                    res.violate("unknown-content", "%s rendered %r (neither an inside file nor an exception)" % (what, out))
                else:
                    res.count("returned_inside")
    return hit


def enum_uris(tier, what):
    if what == "direct":
        plans = [("uniform", 4), ("mixed", 3)] if tier == "quick" else [("uniform", 6), ("mixed", 4)]
    else:
        plans = [("uniform", 3)] if tier == "quick" else [("mixed", 4)]
    for style, kmax in plans:
        for k in range(1, kmax + 1):
            segs_list = SEGS if k <= 4 else SEGS[:8]
            for segs in itertools.product(segs_list, repeat=k):
                if style == "uniform":
                    for sep in SEPS:
                        body = sep.join(segs)
                        for lead in LEADS:
                            yield lead + body
                else:
                    for seps in itertools.product(SEPS, repeat=k - 1):
                        body = segs[0] + "".join(s + g for s, g in zip(seps, segs[1:]))
                        for lead in LEADS:
                            yield lead + body


def absolute_uris():
    """URIs that spell the ABSOLUTE path of an existing outside file after every short mixture of leading slashes and
    backslashes ({ABS} is replaced in the worker by that path without its leading slash, {ABSB} by the same with
    backslashes, {ABSM} with alternating separators)"""
    leads = [""] + ["".join(p) for k in range(1, 5) for p in itertools.product("/\\", repeat=k)] + ["./", ".\\", "../", "/./", "\\.\\", "/../", "file:", "file:///"]
    for lead in leads:
        for body in ("{ABS}", "{ABSB}", "{ABSM}"):
            yield lead + body


def configs():
    out = []
    for i, (sp, two, md) in enumerate(itertools.product(ROOT_SPELLINGS, (False, True), (False, True))):
        out.append({"root": sp, "two": two, "moddir": md, "csize": (-1, 20)[i % 2], "ieh": i % 3 == 1})
    return out


def run_foreign_modules(res):
    """other TemplateLookups in the same process, rooted OUTSIDE our directories, load templates of the same URIs
    (with a module directory of their own, and with ours); whatever they have loaded and in whichever order, a lookup
    over our root only ever hands out templates compiled from files inside our root"""
    L = _st["TemplateLookup"]
    base = _st["base"]
    ours = {"directories": [base + "/root"], "module_directory": base + "/mods"}
    kept = []
    for foreign_mods in (base + "/mods/foreign", base + "/mods/foreign2"):  # (never OUR module directory: sharing one between roots is C14's finding)
        for uri in ("/file.html", "/sub/file.html"):
            for order in ("ours-first", "foreign-first"):
                steps = [("ours", 0), ("foreign", 0), ("ours", 1)] if order == "ours-first" else [("foreign", 0), ("ours", 0), ("foreign", 1), ("ours", 1)]
                for who, _n in steps:
                    what = "lookups sharing a process (%s, foreign module directory %s), %s loads %s" % (order, foreign_mods[len(base):], who, uri)
                    res.evaluations += 1
                    res.count("foreign_module_loads")
                    _audit["on"] = True
                    try:
                        if who == "foreign":
                            fl = L(directories=[base + "/rootx"], module_directory=foreign_mods)
                            kept.append((fl, fl.get_template(uri)))  # stays alive
                            continue
                        lk = L(**ours)
                        outs = []
                        t = lk.get_template(uri)
                        outs.append(t.render_unicode())
                        lk.put_string("/inc_.html", '<%%include file="%s"/>' % uri)
                        lk.put_string("/ns_.html", '<%%namespace name="n" file="%s"/>${n.body()}' % uri)
                        outs.append(lk.get_template("/inc_.html").render_unicode())
                        outs.append(lk.get_template("/ns_.html").render_unicode())
                        fname = getattr(t.module, "_template_filename", None)
                    except Exception as e:
                        res.violate("non-lookup-exception", "%s raised %s: %s" % (what, type(e).__name__, e))
                        continue
                    finally:
                        _audit["on"] = False
                        _audit["events"] = []
                    if any(CANARY in o for o in outs) or not all("IN:" in o for o in outs):
                        res.violate("canary-in-output", "%s rendered %r" % (what, outs), witness=what)
                    if fname and not inside(fname):
                        res.violate("returned-outside", "%s: the template's module was compiled from %r" % (what, fname), witness=what)
    res.nontrivial("foreign-modules")


def gen_cases(tier, seed, shard, nshards):
    if shard == 0:
        yield {"kind": "foreign-modules"}
    cfgs = configs()
    ncfg = 2 if tier == "quick" else 5
    for what in ("direct", "tag"):
        seen = set()
        batch = []
        bi = 0
        size = 4000 if what == "direct" else 150
        for uri in itertools.chain(absolute_uris(), enum_uris(tier, what)):
            if not uri or zlib.crc32(uri.encode("utf-8", "surrogatepass")) % nshards != shard or uri in seen:
                continue
            seen.add(uri)
            batch.append(uri)
            if len(batch) >= size:
                for j in range(ncfg):
                    yield {"kind": what, "uris": batch, "cfg": cfgs[(bi * ncfg + j + shard + seed) % len(cfgs)]}
                bi += 1
                batch = []
        if batch:
            for j in range(ncfg):
                yield {"kind": what, "uris": batch, "cfg": cfgs[(bi * ncfg + j + shard + seed) % len(cfgs)]}


_seen_first_cfg = set()


def run_case(case):
    res = common.CaseResult()
    if case["kind"] == "foreign-modules":
        run_foreign_modules(res)
        return res
    cfg = case["cfg"]
    cfgname = "root=%s two=%s moddir=%s%s" % (cfg["root"], cfg["two"], cfg["moddir"], " include_error_handler=swallow" if cfg.get("ieh") else "")
    look = get_lookup(cfg)
    first = (case["kind"], case["uris"][0]) not in _seen_first_cfg
    _seen_first_cfg.add((case["kind"], case["uris"][0]))
    n = 0
    ab = os.path.join(_st["base"], "outside.html").lstrip("/")
    absm = "".join(c if c != "/" else "/\\"[i % 2] for i, c in enumerate(ab))
    for uri in case["uris"]:
        if "{ABS" in uri:
            uri = uri.replace("{ABSB}", ab.replace("/", "\\")).replace("{ABSM}", absm).replace("{ABS}", ab)
            res.count("absolute_outside_path_uris")
        if case["kind"] == "direct":
            direct(look, uri, res, cfgname)
            cls = expect_class(uri)
            res.count("class_" + cls)
            if cls != "plain" and first:
                n += 1
        else:
            via_tag(look, uri, res, cfgname)
            classes = {expect_class(uri, "/" + "sub/" * d + "c.html") for d in range(4)}
            for c in classes:
                res.count("tagclass_" + c)
            if classes != {"plain"} and first:
                n += 1
    res.bulk_distinct = n
    res.sample = {"kind": case["kind"], "cfg": cfgname, "uris": case["uris"][:6]}
    if case.get("cfg", {}).get("moddir"):
        shutil.rmtree(_st["base"] + "/mods", ignore_errors=True)
        os.makedirs(_st["base"] + "/mods", exist_ok=True)
        # a fresh lookup next time, so that module files are generated again
        _st["lookups"].pop(tuple(sorted(cfg.items())), None)
    return res

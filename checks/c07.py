"""C07 - namespaces and includes reach other templates with the right context and URI.

Generated file sets (2-8 templates in directory trees of depth 0-3, backed by real files in one or two
roots or by put_string) connected by <%include>, <%namespace> (plain, with inline defs, with import=,
inheritable, module=), <%inherit> and the Namespace API (get_namespace / get_template / include_file),
with relative (x, ./x, ../x, sub/x) and absolute URIs.  Every template prints a tag naming its own
file and the context value it sees, so the output states which file was reached with which context.
Reference: URI resolution with posixpath against the URI of the template the reference is written in;
TemplateLookupException when nothing is there.
"""
import os
import re
import posixpath
import shutil
import sys
import tempfile

from mk import common

PROPERTY = "C07"
LEVEL = "exploration"
RULE = (
    "file sets of 2-8 templates at depth 0-3; each template carries 0-3 references (include with/without args, "
    "namespace tag()/body(), namespace with an inline def, namespace with import=, inheritable namespace "
    "reached through self from a derived template, module= namespace, get_namespace, get_template, include_file) "
    "to templates later in a DAG, spelled as relative (plain, ./, ../, sub/) or absolute URIs, a few of them "
    "unresolvable; backing {files in 1 root, files in 2 roots, put_string}. distinct = by (file set texts, "
    "backing); non-trivial = at least one reference crosses directories with a relative URI and resolves."
)
RULE += ' added since: twin references to one target, falsy include arguments, includes executed inside defs (context stack modelled), a base that itself includes a file, twin base templates in different directories, an inheritable namespace declared in the inheriting template, next-key probes. directed: templates whose URIs differ only in punctuation each declaring a same-named namespace and included into one render; the API (get_namespace / get_template / include_file) of a named file namespace declared in a deeper template. 2-3 nameless <%namespace import=> tags back to back / space separated / one per line. relative <%inherit> URIs in chains of 3-4 templates over directories (direct / include / namespace; decoys). module namespaces with an inline def named like a module callable; the same relative URI asked for from three depths in one render. inline defs of import= namespaces against a context variable of the same name.'
ASSUMPTIONS = [
    "put_string-backed sets use relative URIs without dot segments only (keys are literal URIs)",
    "templates are identified by a tag in their text, not by Template.uri (which keeps the joined spelling)",
]
MIN_NONTRIVIAL = 200
REQUIRED_COUNTERS = ["sets_rendered", "relative_cross_directory_resolutions", "unresolvable_matched", "include_args_checked", "import_beats_context", "inline_def_precedence", "inheritable_via_self", "module_namespace_calls", "sibling_namespace_renders", "namespace_api_resolutions", "nameless_namespace_renders", "relative_inherit_chains", "module_namespace_inline_defs", "same_relative_uri_from_several_depths", "inline_defs_in_import_namespaces"]
RULE += " (H) namespace names with capitals / digits, pairs differing in case only, through the <%Name:def> tag spelling."
REQUIRED_COUNTERS += ["namespace_names_as_written"]

_st = {}


def setup_worker():
    from mako import exceptions
    from mako.lookup import TemplateLookup

    mod = type(sys)("verif_c07_mod")

    def mf(context, a="noarg"):
        context.write("MODFN[%s|cv=%s]" % (a, context.get("cv")))
        return ""

    mod.mf = mf
    mod.not_callable = 5
    sys.modules["verif_c07_mod"] = mod
    _st.update(TemplateLookup=TemplateLookup, exceptions=exceptions, tmp=tempfile.mkdtemp(prefix="c07-"), n=0)
    import atexit

    atexit.register(lambda: shutil.rmtree(_st["tmp"], ignore_errors=True))


DIRS = ["/", "/d1/", "/d1/d2/", "/d1/d2/d3/", "/e/", "/e/f/"]


def rel_spelling(r, frm, to, dots_ok):
    """a URI for `to` as written inside the template at `frm`"""
    fdir = posixpath.dirname(frm)
    k = r.random()
    if k < 0.3:
        return to  # absolute
    rel = posixpath.relpath(to, fdir)
    if not dots_ok and (rel.startswith("..") or "/../" in rel):
        return to
    if k < 0.5 and not rel.startswith(".") and dots_ok:
        return "./" + rel
    if k < 0.6 and dots_ok and fdir not in ("/", ""):
        # a detour through the parent directory
        return "../" + posixpath.basename(fdir) + "/" + rel if not rel.startswith("..") else rel
    return rel


def gen_set(r, dots_ok):
    n = r.randint(2, 8)
    files = []
    used = set()
    for i in range(n):
        # few base names over several directories: the same relative spelling ("u.html", "../u.html") then means
        # different files (or nothing) depending on where it is written
        for _ in range(20):
            d = r.choice(DIRS[: r.choice([1, 2, 4, 6])])
            p = "%s%s.html" % (d, r.choice(["u", "v", "w", "p", "q"]))
            if p not in used:
                break
        else:
            p = "%sf%d.html" % (d, i)
        used.add(p)
        files.append({"path": p, "refs": [], "inherit": None, "page": r.random() < 0.3, "shared": None})
    # a base template that others may inherit; it holds an inheritable namespace
    base = {"path": r.choice(["/base.html", "/d1/base.html"]), "refs": [], "inherit": None, "page": False, "base": True, "shared": None}
    files.append(base)
    base["shared"] = ("shared", rel_spelling(r, base["path"], files[-2]["path"], dots_ok), files[-2]["path"])
    for i, f in enumerate(files[:-1]):
        later = files[i + 1 : -1]
        if r.random() < 0.25 and f is not files[-2]:  # the target of the base's namespace must not inherit the base (cycle)
            f["inherit"] = (rel_spelling(r, f["path"], base["path"], dots_ok), base["path"])
        for _ in range(r.randint(0, 3)):
            if not later:
                break
            tgt = r.choice(later)
            kind = r.choice(["include", "include_args", "include_args_falsy", "include_in_def", "ns_tag", "ns_body", "ns_inline", "ns_import", "api_ns", "api_tpl", "api_inc"])
            if kind == "ns_import" and any(x[0] == "ns_import" for x in f["refs"]):
                kind = "ns_tag"
            uri = rel_spelling(r, f["path"], tgt["path"], dots_ok)
            bad = r.random() < 0.04
            if bad:
                # a name that exists in OTHER directories but not where this spelling points
                here = posixpath.dirname(f["path"])
                cands = [b for b in ("u", "v", "w", "p", "q") if posixpath.join(here, b + ".html") not in used]
                uri = (r.choice(cands) + ".html") if cands else "nosuch.html"
                if dots_ok and r.random() < 0.3:
                    uri = r.choice(["nosuch.html", "../nosuch.html", "/d1/nosuch.html"])
            f["refs"].append((kind, uri, None if bad else tgt["path"]))
        if r.random() < 0.2:
            f["refs"].append(("module", "verif_c07_mod", None))
        if f["inherit"] and r.random() < 0.7:
            f["refs"].append(("self_shared", None, None))
        if f["inherit"] and later and r.random() < 0.4:
            # an inheritable namespace declared by the INHERITING template itself: reachable from self as well
            tgt = r.choice(later)
            f["mine"] = (rel_spelling(r, f["path"], tgt["path"], dots_ok), tgt["path"])
            f["refs"].append(("self_mine", None, tgt["path"]))
    # twin references: the same bare relative spelling written in two templates of different directories that are
    # rendered in ONE render (the first includes the second), meaning a different file in each - whatever is cached
    # per render or per lookup under the spelling alone mixes them up
    if r.random() < 0.4:
        order = {f["path"]: i for i, f in enumerate(files[:-1])}
        cands = []
        for i, a in enumerate(files[:-1]):
            for j, b in enumerate(files[:-1]):
                da, db = posixpath.dirname(a["path"]), posixpath.dirname(b["path"])
                if i < j and da != db:
                    for nm in ("u", "v", "w", "p", "q"):
                        ta, tb = posixpath.join(da, nm + ".html"), posixpath.join(db, nm + ".html")
                        if order.get(ta, -1) > j and order.get(tb, -1) > j:
                            cands.append((a, b, nm, ta, tb))
        if cands:
            a, b, nm, ta, tb = r.choice(cands)
            kind = r.choice(["api_ns", "api_ns", "api_tpl", "api_inc", "ns_tag", "include"])
            a["refs"].append((kind, nm + ".html", ta))
            a["refs"].append(("include", rel_spelling(r, a["path"], b["path"], dots_ok), b["path"]))
            b["refs"].append((kind, nm + ".html", tb))
            a["refs"].append((kind, nm + ".html", ta))
    # twin bases: a second base template with the same file name in another directory; one template beside each inherits
    # "base.html" (the same relative spelling, two different parents) and the first includes the second, so both
    # chains run in one render
    if r.random() < 0.3:
        other = "/d1/base.html" if base["path"] == "/base.html" else "/base.html"
        if other not in used:
            d1, d2 = posixpath.dirname(base["path"]), posixpath.dirname(other)
            plain = [f for f in files[:-2] if not f["inherit"]]
            As = [f for f in plain if posixpath.dirname(f["path"]) == d1]
            Bs = [f for f in plain if posixpath.dirname(f["path"]) == d2]
            pairs = [(a, b) for a in As for b in Bs if files.index(a) < files.index(b)]
            if pairs:
                a, b = r.choice(pairs)
                base2 = {"path": other, "refs": [], "inherit": None, "page": False, "base": True, "shared": None}
                files.insert(len(files) - 1, base2)
                used.add(other)
                a["inherit"] = ("base.html", base["path"])
                b["inherit"] = ("base.html", other)
                a["refs"].append(("include", rel_spelling(r, a["path"], b["path"], dots_ok), b["path"]))
    # the base template itself includes something: its context carries `next`, the included template's must not
    if r.random() < 0.5:
        bypath = {f["path"]: f for f in files}

        def reaches_inheriting(p, seen):
            if p in seen or p not in bypath:
                return False
            seen.add(p)
            f = bypath[p]
            if f["inherit"]:
                return True
            return any(t is not None and reaches_inheriting(t, seen) for _, _, t in f["refs"])

        cands = [f for f in files[:-1] if not f.get("base") and not reaches_inheriting(f["path"], set()) and f["path"] != (base["shared"] or (None, None, None))[2]]
        if cands:
            tgt = r.choice(cands)
            base["refs"].append((r.choice(["include", "api_inc"]), rel_spelling(r, base["path"], tgt["path"], dots_ok), tgt["path"]))
    return files


def emit(f, files):
    p = f["path"]
    head, body = [], []
    if f["inherit"]:
        head.append('<%%inherit file="%s"/>' % f["inherit"][0])
    if f["page"]:
        head.append("<%page args=\"pa='dflt'\"/>")
    if f.get("shared"):
        head.append('<%%namespace name="shared" file="%s" inheritable="True"/>' % f["shared"][1])
    if f.get("mine"):
        head.append('<%%namespace name="mine" file="%s" inheritable="True"/>' % f["mine"][0])
    body.append("{F:%s cv=${cv}%s " % (p, " pa=${pa}" if f["page"] else ""))
    body.append("own=${self.tag() if not %r else local.tag()} parentkey=${'parent' in context.keys()} nextkey=${'next' in context.keys()} " % bool(f["inherit"] or f.get("base")))
    for k, (kind, uri, tgt) in enumerate(f["refs"]):
        ns = "n%d" % k
        if kind == "include":
            body.append('<%%include file="%s"/>' % uri)
        elif kind == "include_args":
            body.append('<%%include file="%s" args="pa=\'viaargs\'"/>' % uri)
        elif kind == "include_in_def":
            # the include stands in a def called from the body: the context it sees carries the including template's
            # own <%page> arguments (handed to its defs), and the target's <%page> arguments are filled from it
            body.append('<%%def name="incd%d()"><%%include file="%s"/></%%def>${incd%d()}' % (k, uri, k))
        elif kind == "include_args_falsy":
            # an argument given in args= wins over the context also when its value is false
            body.append('<%%include file="%s" args="pa=\'\'"/>' % uri)
        elif kind == "ns_tag":
            head.append('<%%namespace name="%s" file="%s"/>' % (ns, uri))
            body.append("${%s.tag()}" % ns)
        elif kind == "ns_body":
            head.append('<%%namespace name="%s" file="%s"/>' % (ns, uri))
            body.append("${%s.body()}" % ns)
        elif kind == "ns_inline":
            head.append('<%%namespace name="%s" file="%s"><%%def name="tag()">INLINE@%s</%%def></%%namespace>' % (ns, uri, p))
            body.append("${%s.tag()}${%s.tag2()}" % (ns, ns))
        elif kind == "ns_import":
            nm = impname(tgt) if tgt else "imp_nosuch"
            head.append('<%%namespace file="%s" import="%s"/>' % (uri, nm))
            body.append("${%s()}" % nm)
        elif kind == "api_ns":
            body.append("${local.get_namespace('%s').tag()}" % uri)
        elif kind == "api_tpl":
            body.append("${local.get_template('%s').get_def('tag').render()}" % uri)
        elif kind == "api_inc":
            body.append("<%% local.include_file('%s') %%>" % uri)
        elif kind == "module":
            head.append('<%%namespace name="%s" module="%s"/>' % (ns, uri))
            body.append("${%s.mf('x')}" % ns)
        elif kind == "self_shared":
            body.append("${self.shared.tag()}")
        elif kind == "self_mine":
            body.append("${self.mine.tag()}")
    if f.get("base"):
        body.append("BASEBODY[${next.body(**pageargs)}]")  # the documented way to hand <%page> arguments down
    body.append("}")
    defs = '<%%def name="tag()">DEF@%s</%%def><%%def name="tag2()">DEF2@%s</%%def><%%def name="%s()">IMP@%s cv=${cv}</%%def>' % (p, p, impname(p), p)
    return "".join(head) + "".join(body) + defs


def impname(path):
    return "imp" + path.split(".")[0].replace("/", "_")


class Lookup404(Exception):
    pass


class Model:
    def __init__(self, files, cv, ctx_pa=None, quirk_include_inheriting=False):
        self.quirk = quirk_include_inheriting
        self.files = {f["path"]: f for f in files}
        self.cv = cv
        # a <%page> argument not given by the caller comes from the context, then its default.  The context an included
        # template works on is the includer's - which, for an include standing in a def, carries the includer's own
        # <%page> arguments: `cpa` is the stack of what the context holds for `pa`
        self.cpa = [ctx_pa or "dflt"]
        self.out = []
        self.events = set()
        self.touched = set()   # templates whose defs were used without their body being rendered
        self.bodied = set()
        self.ns_decl_ctx = {}

    @property
    def dflt(self):
        return self.cpa[-1]

    def resolve(self, uri, frm):
        if uri.startswith("/"):
            full = uri
        else:
            full = posixpath.join(posixpath.dirname(frm), uri)
        norm = posixpath.normpath(full)
        if norm.startswith("/.."):
            raise Lookup404(uri)
        if norm not in self.files:
            raise Lookup404(uri)
        if not uri.startswith("/") and posixpath.dirname(norm) != posixpath.dirname(frm):
            self.events.add("cross")
        return norm

    def check_namespaces(self, f):
        # file namespaces are looked up when the template body starts
        if f.get("shared"):
            self.resolve(f["shared"][1], f["path"])
        if f.get("mine"):
            self.resolve(f["mine"][0], f["path"])
        for kind, uri, tgt in f["refs"]:
            if kind in ("ns_tag", "ns_body", "ns_inline", "ns_import"):
                self.resolve(uri, f["path"])

    def body(self, path, pa=None, top_inherits=False, mode="top", is_base=False):
        f = self.files[path]
        w = self.out.append
        self.bodied.add(path)
        self.check_namespaces(f)
        if any(k_ == "ns_body" for k_, _u, _t in f["refs"]):
            # the namespaces a template declares are made once per render (again whenever an inheriting template is
            # set up) and keep the context of that moment: when the same declaring template runs under contexts that
            # hold different values for `pa`, which of them a later ns.body() works on is not modelled
            self.ns_decl_ctx.setdefault(path, set()).add(self.dflt)
            if len(self.ns_decl_ctx[path]) > 1:
                self.events.add("ns-context-ambiguous")
        w("{F:%s cv=%s%s " % (path, self.cv, (" pa=%s" % pa) if f["page"] else ""))
        # `next` exists only in the body of a template that is being rendered as somebody's base: an included or
        # namespace target, and the inheriting template itself, have no such link
        w("own=DEF@%s parentkey=%s nextkey=%s " % (path, top_inherits, is_base))
        for kind, uri, tgt in f["refs"]:
            if kind in ("include", "include_args", "include_args_falsy", "include_in_def", "api_inc"):
                t = self.resolve(uri, path)
                tf = self.files[t]
                p2 = None
                if tf["page"]:
                    p2 = "viaargs" if kind == "include_args" else "" if kind == "include_args_falsy" else self.dflt
                    if kind == "include_in_def" and f["page"]:
                        p2 = pa
                    if self.quirk and kind not in ("include_args", "include_args_falsy") and tf["inherit"]:
                        p2 = "dflt"  # C07/include-inheriting-target-context-pagearg
                    self.events.add("incargs" if kind.startswith("include_args") else "incdefault")
                pushed = kind == "include_in_def" and f["page"]
                if pushed:
                    self.cpa.append(pa)
                try:
                    self.render(t, pa=p2, included=True)
                finally:
                    if pushed:
                        self.cpa.pop()
            elif kind == "ns_tag" or kind == "api_ns" or kind == "api_tpl":
                w("DEF@%s" % self.resolve(uri, path))
                self.touched.add(self.resolve(uri, path))
            elif kind == "ns_body":
                t = self.resolve(uri, path)
                # a file namespace works on a context cleaned of the caller's inheritance tokens
                self.body(t, pa="dflt" if self.files[t]["page"] else None, top_inherits=bool(self.files[t]["inherit"]), mode="nsbody")  # body() called without arguments: the declared default
            elif kind == "ns_inline":
                t = self.resolve(uri, path)
                self.touched.add(t)
                w("INLINE@%sDEF2@%s" % (path, t))
                self.events.add("inline")
            elif kind == "ns_import":
                t = self.resolve(uri, path)
                self.touched.add(t)
                w("IMP@%s cv=%s" % (t, self.cv))
                self.events.add("import")
            elif kind == "module":
                w("MODFN[x|cv=%s]" % self.cv)
                self.events.add("module")
            elif kind == "self_shared":
                base = self.files[self.resolve(f["inherit"][0], path)]
                w("DEF@%s" % self.resolve(base["shared"][1], base["path"]))
                self.touched.add(self.resolve(base["shared"][1], base["path"]))
                self.events.add("shared")
            elif kind == "self_mine":
                w("DEF@%s" % self.resolve(f["mine"][0], path))
                self.touched.add(self.resolve(f["mine"][0], path))
                self.events.add("mine")
        if f.get("base"):
            w("BASEBODY[")
            self.body(self.child, pa=self.child_pa, top_inherits=True)
            w("]")
        w("}")

    def lazily_bad(self):
        """a template whose defs were used (or that is reachable from one through namespace declarations or
        inheritance), but whose body was not rendered, declares a namespace that cannot be resolved: whether
        using a def already evaluates such declarations is not asserted"""
        seen = set()
        todo = list(self.touched)
        while todo:
            p = todo.pop()
            if p in seen:
                continue
            seen.add(p)
            f = self.files[p]
            refs = [(uri, p) for kind, uri, tgt in f["refs"] if kind in ("ns_tag", "ns_body", "ns_inline", "ns_import")]
            if f.get("shared"):
                refs.append((f["shared"][1], p))
            if f.get("mine"):
                refs.append((f["mine"][0], p))
            if f["inherit"]:
                refs.append((f["inherit"][0], p))
            for uri, frm in refs:
                try:
                    todo.append(self.resolve(uri, frm))
                except Lookup404:
                    return True
        return False

    def render(self, path, pa=None, included=False):
        f = self.files[path]
        if f["inherit"]:
            b = self.resolve(f["inherit"][0], path)
            saved = getattr(self, "child", None), getattr(self, "child_pa", None)
            self.child, self.child_pa = path, pa
            try:
                self.body(b, top_inherits=False, is_base=True)  # the base-most template has no parent
            finally:
                self.child, self.child_pa = saved
        else:
            self.body(path, pa=pa, top_inherits=False)


def run_set(files, backing, res, rc, ctx_pa=None):
    L = _st["TemplateLookup"]
    ex = _st["exceptions"]
    texts = {f["path"]: emit(f, files) for f in files}
    _st["n"] += 1
    base = os.path.join(_st["tmp"], "s%d" % _st["n"])
    try:
        if backing == "put_string":
            lk = L()
            for p, t in texts.items():
                lk.put_string(p, t)
        else:
            roots = [os.path.join(base, "r1")] + ([os.path.join(base, "r2")] if backing == "files2" else [])
            for i, (p, t) in enumerate(sorted(texts.items())):
                root = roots[i % len(roots)]
                fp = os.path.join(root, p.lstrip("/"))
                os.makedirs(os.path.dirname(fp), exist_ok=True)
                with open(fp, "w") as fh:
                    fh.write(t)
            for rt in roots:
                os.makedirs(rt, exist_ok=True)
            lk = L(directories=roots)
        top = files[0]["path"]
        m = Model(files, "CV1", ctx_pa)
        try:
            m.render(top, pa=m.dflt if files[0]["page"] else None)
            exp = ("out", "".join(m.out))
        except Lookup404 as e:
            exp = ("exc", "TemplateLookupException")
        res.evaluations += 1
        what = "backing=%s, rendering %s of\n%s" % (backing, top, "\n".join("  %s: %s" % (p, t[: t.index('<%def name="tag()"')]) for p, t in sorted(texts.items())))
        try:
            got = ("out", lk.get_template(top).render_unicode(cv="CV1", tag="ctx-tag", **dict({impname(f["path"]): "ctx-imp" for f in files}, **({"pa": ctx_pa} if ctx_pa else {}))))
        except ex.TemplateLookupException as e:
            got = ("exc", "TemplateLookupException")
        except Exception as e:
            got = ("exc", "%s: %s" % (type(e).__name__, e))
        res.count("sets_rendered")
        if got != exp and exp[0] == "out" and got == ("exc", "TemplateLookupException") and m.lazily_bad():
            res.count("not_asserted_lazy_namespace")
        elif got != exp and "ns-context-ambiguous" in m.events and got[0] == exp[0] == "out" and re.sub(r" pa=\w*", " pa=?", got[1]) == re.sub(r" pa=\w*", " pa=?", exp[1]):
            # everything but the context-supplied <%page> values agrees (see Model.body)
            res.count("not_asserted_namespace_context_of_first_use")
        elif got != exp:
            fid = None
            if True:  # (the value may also come from an in-def include, not only from render())
                mq = Model(files, "CV1", ctx_pa, quirk_include_inheriting=True)
                try:
                    mq.render(top, pa=mq.dflt if files[0]["page"] else None)
                    if got == ("out", "".join(mq.out)):
                        # recogniser: the model in which an included template that inherits does not receive
                        # context-supplied <%page> arguments reproduces the output exactly
                        fid = "C07/include-inheriting-target-context-pagearg"
                except Lookup404:
                    pass
            res.violate("namespace-include-semantics", "%s\nrendered %r\nexpected %r" % (what, got, exp), finding=fid,
                        witness="<%include file=X/> where X inherits and declares <%page args=\"pa='dflt'\"/>, rendered with pa in the context: X sees 'dflt'" if fid else None,
                        replay_case=rc)
        else:
            if exp[0] == "exc":
                res.count("unresolvable_matched")
            ev = m.events
            for e_, cname in (("cross", "relative_cross_directory_resolutions"), ("incargs", "include_args_checked"), ("import", "import_beats_context"),
                              ("inline", "inline_def_precedence"), ("shared", "inheritable_via_self"), ("module", "module_namespace_calls")):
                if e_ in ev:
                    res.count(cname)
            if "cross" in ev and exp[0] == "out":
                res.nontrivial("c07", backing, sorted(texts.items()))
        if res.sample is None:
            res.sample = {"backing": backing, "files": {p: t[:200] for p, t in texts.items()}, "expected": exp[1][:300]}
    finally:
        shutil.rmtree(base, ignore_errors=True)


SIBLINGS = [("/a-b.html", "/a_b.html", "/a.b.html"), ("/s/x-1.html", "/s/x_1.html", "/s/x 1.html"), ("/sub/x.html", "/sub_x.html", "/sub.x.html")]


def run_directed(res):
    """directed scenarios (each one small, all combinations enumerated)"""
    L = _st["TemplateLookup"]
    ex = _st["exceptions"]

    def render(lk, uri, **kw):
        try:
            return "".join(lk.get_template(uri).render_unicode(**kw).split())
        except ex.TemplateLookupException:
            return "TemplateLookupException"
        except Exception as e:
            return "%s: %s" % (type(e).__name__, e)

    # (A) templates whose URIs differ only in punctuation each declare a namespace of the SAME name for a different
    # file (plain, with an inline def, with import=); all of them are included into one render and referenced as
    # namespaces of one another: every one must reach its own library
    for group in SIBLINGS:
        for style in ("plain", "inline", "import", "module"):
            for order in (group, tuple(reversed(group))):
                lk = L()
                exp = []
                for i, uri in enumerate(group):
                    lk.put_string("/lib%d.html" % i, '<%%def name="f()">LIB%d</%%def><%%def name="g()">G%d</%%def>' % (i, i))
                    if style == "plain":
                        t = '<%%namespace name="ns" file="/lib%d.html"/>[%d:${ns.f()}]' % (i, i)
                        e = "[%d:LIB%d]" % (i, i)
                    elif style == "inline":
                        t = '<%%namespace name="ns" file="/lib%d.html"><%%def name="g()">INL%d</%%def></%%namespace>[%d:${ns.f()}${ns.g()}]' % (i, i, i)
                        e = "[%d:LIB%dINL%d]" % (i, i, i)
                    elif style == "import":
                        t = '<%%namespace file="/lib%d.html" import="f"/>[%d:${f()}]' % (i, i)
                        e = "[%d:LIB%d]" % (i, i)
                    else:
                        t = '<%%namespace name="ns" module="verif_c07_mod"/><%%namespace name="n2" file="/lib%d.html"/>[%d:${ns.mf("m")}${n2.f()}]' % (i, i)
                        e = "[%d:MODFN[m|cv=CV]LIB%d]" % (i, i)
                    lk.put_string(uri, t + '<%def name="me()">' + e + "</%def>")
                    exp.append((uri, e))
                lk.put_string("/main.html", "".join('<%%include file="%s"/>' % u for u in order)
                              + "".join('<%%namespace name="m%d" file="%s"/>' % (k, u) for k, u in enumerate(order))
                              + "".join("${m%d.me()}" % k for k in range(len(order))))
                d = dict(exp)
                want = "".join(d[u] for u in order) * 2
                got = render(lk, "/main.html", cv="CV")
                res.evaluations += 1
                res.count("sibling_namespace_renders")
                if got != "".join(want.split()):
                    res.violate("namespace-of-sibling-uri", "templates %r each declare their own namespace (%s) and are included, in the order %r, into one "
                                "render: output %r, expected %r" % (group, style, order, got, want))
                res.nontrivial("sib", group, style, order)

    # (C) several <%namespace ... import=...> tags WITHOUT a name in one template - on one line back to back, separated
    # by a space, or one per line: every one of them contributes its imported defs
    for sep_name, sep in (("back to back", ""), ("space separated", " "), ("one per line", "\n")):
        for n in (2, 3):
            for style in ("file", "mixed-with-module"):
                lk = L()
                tags, calls, want = [], [], []
                for i in range(n):
                    lk.put_string("/imp%d.html" % i, '<%%def name="fn%d()">F%d</%%def><%%def name="other%d()">O%d</%%def>' % (i, i, i, i))
                    if style == "mixed-with-module" and i == 1:
                        tags.append('<%namespace module="verif_c07_mod" import="mf"/>')
                        calls.append("${mf('q')}")
                        want.append("MODFN[q|cv=CV]")
                    else:
                        tags.append('<%%namespace file="/imp%d.html" import="%s"/>' % (i, "fn%d" % i if i % 2 == 0 else "*"))
                        calls.append("${fn%d()}" % i)
                        want.append("F%d" % i)
                lk.put_string("/main.html", sep.join(tags) + "\n[" + "|".join(calls) + "]")
                got = render(lk, "/main.html", cv="CV")
                res.evaluations += 1
                res.count("nameless_namespace_renders")
                exp = "[" + "|".join(want) + "]"
                if got != exp:
                    res.violate("nameless-namespaces", "%d nameless <%%namespace import=> tags %s (%s): rendered %r, expected %r" % (n, sep_name, style, got, exp))
                res.nontrivial("nameless", sep_name, n, style)

    # (D) inheritance chains of three and four templates spread over directories, every <%inherit> written as a
    # relative URI: each resolves against the template it is written in, not against the leaf being rendered -
    # rendered directly, through an <%include> and through a <%namespace>; decoys of the same name sit beside the leaf
    for levels in (3, 4):
        for backing in ("put_string", "files"):
            files = {
                "/a/leaf.html": '<%inherit file="../b/mid.html"/>leaf<%def name="who()">leaf:${self.kind()}</%def>',
                "/b/mid.html": '<%%inherit file="%s"/>mid(${next.body()})' % ("base.html" if levels == 3 else "c/mid2.html"),
                "/b/base.html": 'RIGHTBASE[${next.body()}]<%def name="kind()">right</%def>',
                "/a/base.html": 'WRONGBASE[${next.body()}]<%def name="kind()">wrong</%def>',
                "/base.html": 'ROOTBASE[${next.body()}]<%def name="kind()">root</%def>',
                "/b/c/mid2.html": '<%inherit file="../base.html"/>mid2(${next.body()})',
                "/a/c/mid2.html": '<%inherit file="../base.html"/>WRONGMID2(${next.body()})',
                "/main_inc.html": 'I{<%include file="a/leaf.html"/>}',
                "/x/main_ns.html": '<%namespace name="n" file="../a/leaf.html"/>N{${n.body()}|${n.who()}}',
            }
            if backing == "put_string":
                # (keys are literal URIs: the relative spellings are normalised by hand)
                lk = L()
                norm = {"/a/leaf.html": '<%inherit file="/b/mid.html"/>leaf<%def name="who()">leaf:${self.kind()}</%def>',
                        "/b/c/mid2.html": '<%inherit file="/b/base.html"/>mid2(${next.body()})', "/a/c/mid2.html": '<%inherit file="/a/base.html"/>WRONGMID2(${next.body()})',
                        "/x/main_ns.html": '<%namespace name="n" file="/a/leaf.html"/>N{${n.body()}|${n.who()}}'}
                for u, t in files.items():
                    lk.put_string(u, norm.get(u, t))
                root = None
            else:
                _st["n"] += 1
                root = os.path.join(_st["tmp"], "e%d" % _st["n"])
                for u, t in files.items():
                    fp = os.path.join(root, u.lstrip("/"))
                    os.makedirs(os.path.dirname(fp), exist_ok=True)
                    with open(fp, "w") as fh:
                        fh.write(t)
                lk = L(directories=[root])
            inner = "RIGHTBASE[mid(leaf)]" if levels == 3 else "RIGHTBASE[mid2(mid(leaf))]"
            # (a namespace's body() is the template's own body; its defs see the template's own inheritance chain)
            for uri, want in (("/a/leaf.html", inner), ("/main_inc.html", "I{%s}" % inner), ("/x/main_ns.html", "N{leaf|leaf:right}")):
                got = render(lk, uri)
                res.evaluations += 1
                res.count("relative_inherit_chains")
                if got != want:
                    res.violate("relative-inherit-chain", "%d-level chain over directories (%s), rendering %s: %r, expected %r" % (levels, backing, uri, got, want))
            if root:
                shutil.rmtree(root, ignore_errors=True)
            res.nontrivial("rel-inherit", levels, backing)

    # (E) defs written inside a <%namespace module=...> tag take precedence over the module's callables of the same name
    # (qualified and through import=), the module's other callables stay reachable
    for style in ("qualified", "import-named"):
        lk = L()
        if style == "qualified":
            lk.put_string("/m.html", '<%namespace name="m" module="verif_c07_mod"><%def name="mf(a=\'dflt\')">INLINE[${a}]</%def></%namespace>${m.mf("q")}|${m.mf2("r")}')
        else:
            lk.put_string("/m.html", '<%namespace module="verif_c07_mod" import="mf, mf2"><%def name="mf(a=\'dflt\')">INLINE[${a}]</%def></%namespace>${mf("q")}|${mf2("r")}')
        sys.modules["verif_c07_mod"].mf2 = lambda context, a="noarg": (context.write("MODFN2[%s]" % a), "")[1]
        got = render(lk, "/m.html", cv="CV")
        res.evaluations += 1
        res.count("module_namespace_inline_defs")
        if got != "INLINE[q]|MODFN2[r]":
            res.violate("module-namespace-inline-def", "<%%namespace module=...> with an inline def named like a module callable (%s): rendered %r, expected 'INLINE[q]|MODFN2[r]'" % (style, got))
        res.nontrivial("mod-inline", style)

    # (G) a def written inside a <%namespace ... import="..."> tag belongs to that namespace: unqualified it is visible
    # only if the import list names it (or is *); otherwise the bare name means what it meant before (context / UNDEFINED)
    for imp, want in (("fn0", "[ctx-label|F0|inline-label]"), ("fn0, label", "[inline-label|F0|inline-label]"), ("*", "[inline-label|F0|inline-label]")):
        for nameless in (True, False):
            lk = L()
            lk.put_string("/lib0.html", '<%def name="fn0()">F0</%def>')
            tag = '<%%namespace %sfile="/lib0.html" import="%s"><%%def name="label()">inline-label</%%def></%%namespace>' % ("" if nameless else 'name="nn" ', imp)
            qualified = "inline-label" if nameless else "${nn.label()}"
            lk.put_string("/g.html", tag + "[${label() if callable(label) else label}|${fn0()}|%s]" % qualified)
            got = render(lk, "/g.html", label="ctx-label")
            res.evaluations += 1
            res.count("inline_defs_in_import_namespaces")
            if got != want:
                res.violate("inline-def-leaks-unqualified", "<%%namespace %simport=%r> holding an inline def `label`, context has label='ctx-label': rendered %r, expected %r" % (
                    "" if nameless else "name=nn ", imp, got, want))
    res.nontrivial("inline-import")

    # (H) the name a namespace is declared under is used as written - capitals, underscores, digits - in ${Name.def()}
    # and in the <%Name:def> tag spelling alike (two namespaces whose names differ in case only are two namespaces)
    for nm, other in (("Util", "util"), ("util", "Util"), ("myLib_2", "mylib_2"), ("NS", "ns")):
        lk = L()
        lk.put_string("/lib_a.html", '<%def name="hi(who)">A-hi(${who})</%def><%def name="wrap()">A[${caller.body()}]</%def><%def name="Cap()">A-Cap</%def>')
        lk.put_string("/lib_b.html", '<%def name="hi(who)">B-hi(${who})</%def><%def name="wrap()">B[${caller.body()}]</%def><%def name="Cap()">B-Cap</%def>')
        try:
            lk.put_string("/h.html", '<%%namespace name="%s" file="/lib_a.html"/><%%namespace name="%s" file="/lib_b.html"/>'
                                     '<%%%s:hi who="x"/>|<%%%s:wrap>body</%%%s:wrap>|${%s.hi("y")}|<%%%s:Cap/>|<%%%s:hi who="z"/>|<%%%s:wrap>b2</%%%s:wrap>' % (
                                         nm, other, nm, nm, nm, nm, nm, other, other, other))
            got = render(lk, "/h.html")
        except Exception as e:
            got = "%s: %s" % (type(e).__name__, e)
        res.evaluations += 1
        res.count("namespace_names_as_written")
        want = "A-hi(x)|A[body]|A-hi(y)|A-Cap|B-hi(z)|B[b2]"
        if got != want:
            res.violate("namespace-name-as-written", "namespaces declared as %r and %r, used through the <%%name:def> tag spelling and in expressions: rendered %r, expected %r" % (nm, other, got, want))
    res.nontrivial("namespace-names")

    # (F) get_namespace with the SAME relative URI string from templates at different depths within one render: each
    # call resolves against its own template (and a call that leaves the root is unresolvable whatever came before)
    for first in ("deep-first", "top-first"):
        _st["n"] += 1
        root = os.path.join(_st["tmp"], "f%d" % _st["n"])
        texts = {
            "/x.html": '<%def name="tag()">XROOT</%def>',
            "/d1/x.html": '<%def name="tag()">XD1</%def>',
            "/d1/d2/x.html": '<%def name="tag()">XDEEP</%def>',
            "/d1/d2/deep.html": "deep[${local.get_namespace('x.html').tag()}|${local.get_namespace('../x.html').tag()}]",
            "/d1/mid.html": "mid[${local.get_namespace('x.html').tag()}|${local.get_namespace('../x.html').tag()}]",
            "/top.html": "top[${local.get_namespace('x.html').tag()}]",
            "/main.html": ('<%include file="/d1/d2/deep.html"/><%include file="/d1/mid.html"/><%include file="/top.html"/>' if first == "deep-first"
                           else '<%include file="/top.html"/><%include file="/d1/mid.html"/><%include file="/d1/d2/deep.html"/>'),
            "/esc.html": "<%include file=\"/d1/mid.html\"/>esc[${local.get_namespace('../x.html').tag()}]",
        }
        for u, t in texts.items():
            fp = os.path.join(root, u.lstrip("/"))
            os.makedirs(os.path.dirname(fp), exist_ok=True)
            with open(fp, "w") as fh:
                fh.write(t)
        lk = L(directories=[root])
        want = "deep[XDEEP|XD1]mid[XD1|XROOT]top[XROOT]" if first == "deep-first" else "top[XROOT]mid[XD1|XROOT]deep[XDEEP|XD1]"
        got = render(lk, "/main.html")
        res.evaluations += 1
        res.count("same_relative_uri_from_several_depths")
        if got != want:
            res.violate("get-namespace-base-uri", "one render, get_namespace('x.html') / ('../x.html') called from three depths (%s): %r, expected %r" % (first, got, want))
        got = render(lk, "/esc.html")
        if got != "TemplateLookupException":
            res.violate("get-namespace-base-uri", "/esc.html: get_namespace('../x.html') from the root template after /d1/mid.html used the same string: %r, expected a TemplateLookupException" % got)
        shutil.rmtree(root, ignore_errors=True)
        res.nontrivial("same-rel-uri", first)

    # (B) the Namespace API of a FILE namespace declared in a deeper template: get_namespace / get_template /
    # include_file with a relative URI resolve against the namespace's own template (documented on
    # Namespace.get_namespace: "relative to the uri of the namespace itself"), not against the declaring template
    for decl in ("/lib.html", "../../lib.html", "../d2/../../lib.html"):
        for how in ("tag", "local-api", "chained"):
            _st["n"] += 1
            root = os.path.join(_st["tmp"], "d%d" % _st["n"])
            lk = L(directories=[root])

            class _W:
                @staticmethod
                def put_string(uri, text):
                    fp = os.path.join(root, uri.lstrip("/"))
                    os.makedirs(os.path.dirname(fp), exist_ok=True)
                    with open(fp, "w") as fh:
                        fh.write(text)

            put = _W.put_string
            put("/lib.html", '<%def name="tag()">LIB</%def>')
            put("/x.html", 'X@root<%def name="tag()">XROOT</%def>')
            put("/d1/d2/x.html", 'X@deep<%def name="tag()">XDEEP</%def>')
            put("/d1/x.html", 'X@d1<%def name="tag()">XD1</%def>')
            if how == "tag":
                head, ns = '<%%namespace name="ns" file="%s"/>' % decl, "ns"
            elif how == "local-api":
                head, ns = "", "local.get_namespace('%s')" % decl
            else:
                head, ns = '<%namespace name="l2" file="x.html"/>', "l2.get_namespace('%s')" % {"/lib.html": "/lib.html", "../../lib.html": "../../lib.html", "../d2/../../lib.html": "../d2/../../lib.html"}[decl]
            body = ("[%s.get_namespace('x.html').tag()=${%s.get_namespace('x.html').tag()}]" % (ns, ns)
                    + "[tpl=${%s.get_template('x.html').get_def('tag').render()}]" % ns
                    + "[inc=<%% %s.include_file('x.html') %%>]" % ns
                    + "[own=${local.get_namespace('x.html').tag()}]")
            put("/d1/d2/page.html", head + body)
            want = "[%s.get_namespace('x.html').tag()=XROOT][tpl=XROOT][inc=X@root][own=XDEEP]" % ns
            if how == "chained" and not decl.startswith("/"):
                # l2 is /d1/d2/x.html, the relative declaration resolves from there just the same
                pass
            got = render(lk, "/d1/d2/page.html")
            res.evaluations += 1
            res.count("namespace_api_resolutions")
            if got != "".join(want.split()):
                res.violate("namespace-api-base-uri", "/d1/d2/page.html reaches /lib.html as %s (%s) and calls its API with 'x.html' (present at /, /d1/ and /d1/d2/): "
                            "output %r, expected %r" % (ns, how, got, want))
            # a relative URI that leaves the root when resolved against the namespace's template is unresolvable
            put("/d1/d2/up.html", head + "${%s.get_namespace('../x.html').tag()}" % ns)
            got = render(lk, "/d1/d2/up.html")
            res.count("namespace_api_resolutions")
            if got != "TemplateLookupException":
                res.violate("namespace-api-base-uri", "/d1/d2/up.html: %s.get_namespace('../x.html') where the namespace is /lib.html must be unresolvable "
                            "(/../x.html); got %r" % (ns, got))
            res.nontrivial("api", decl, how)
            shutil.rmtree(root, ignore_errors=True)


def gen_cases(tier, seed):
    yield {"kind": "directed"}
    n = 6000 if tier == "quick" else 40000
    per = 40
    for i in range(n // per):
        yield {"kind": "batch", "seed": seed, "index": i, "n": per}


def run_case(case):
    res = common.CaseResult()
    if case["kind"] == "batch":
        r = common.rng_for(case["seed"], "c07", case["index"])
        for _ in range(case["n"]):
            backing = r.choice(["files1", "files1", "files2", "put_string"])
            files = gen_set(r, dots_ok=(backing != "put_string"))
            ctx_pa = "ctxpa" if r.random() < 0.5 else None
            run_set(files, backing, res, {"kind": "set", "files": files, "backing": backing, "ctx_pa": ctx_pa}, ctx_pa)
    elif case["kind"] == "directed":
        run_directed(res)
    elif case["kind"] == "set":
        files = case["files"]
        run_set(files, case["backing"], res, case, case.get("ctx_pa"))
    return res

"""C01 - literal text and documented escapes reproduced exactly; lexing terminates polynomially.

Parts (case kinds):
  tok     exhaustive concatenations of <=k tokens: cursor-conservation trace check on the real
          Lexer (mk/lexmon.py), exception-type check, render == reference for the literal/escape
          fragment (independent reference scanner below), render == concatenated Text nodes.
  doc     random long documents built from segments with a by-construction expected output.
  growth  adversarial repetition families, CPU time growth measured in a child process.
"""
import itertools
import json
import os
import re
import signal
import subprocess
import sys

from mk import common, lexmon

PROPERTY = "C01"
LEVEL = "exploration"
EXHAUSTIVE = {"quick": True, "thorough": True}
RULE = (
    "tok: all concatenations of <=k tokens (quick k=3 over 36 tokens; thorough k=4, and k=5 over a "
    "16-token sub-alphabet) of directive fragments and filler, each parsed by the real Lexer under the "
    "cursor monitor and, when the tree is text-only, rendered; non-trivial = the parse returned and "
    "contained at least one escape/directive step (not only match_text), distinct by source string. "
    "doc: random documents of 5-60 segments (literal Unicode runs, %%, backslash-newline, ## lines, "
    "<%doc>, <%text>, ${'literal'}, <% %>, % if/% for lines) with expected output by construction; "
    "non-trivial = at least 3 distinct segment kinds, distinct by source. growth: each family "
    "opener x repeated unit x terminator measured at n=8..28 and 1k..8k; non-trivial = family whose "
    "measurements completed."
)
RULE += " added since: documents wrapped in def/block/call bodies, filtered <%text filter=..> segments; growth families with lone CR / CR+x / backslash terminators and '%', ' \\t% ', '  ##' openers; every lexing is bounded by a 20 s CPU-time (ITIMER_VIRTUAL) watchdog whose firing is reported as lexing-does-not-terminate. 13 hostile characters (NUL, control characters, BOM, LS/PS, a lone surrogate ...) inside 21 directive frames and literal text."
ASSUMPTIONS = [
    "the harness's own copies of the consumption grammar (mk/lexmon.py) and the reference scanner "
    "ref_render() state what each directive consumes",
    "time bound decided as: no super-polynomial growth of CPU time on the listed families up to the listed sizes",
]
MIN_NONTRIVIAL = 500
REQUIRED_COUNTERS = ["parses_returned", "steps_checked", "renders_compared", "ref_renders_compared", "docs_rendered", "growth_families_measured"]
SHARDS = {"quick": 48, "thorough": 256}

TOKENS = [
    "<%", "%>", "</%", "${", "}", "%", "%%", "##", "\\", "\n", "\r\n", '"', "'", "|", ">", "/",
    "<%text>", "</%text>", "<%doc>", "</%doc>", "a", " ", "é", "#", "$", "<", "{", "x=",
    '<%def name="f()">', "</%def>", "% if x:", "% endif", "<%!", "${x}", "\t", "=",
]
TOKENS5 = ["<%", "%>", "</%", "${", "}", "%", "##", "\\", "\n", "\r\n", "<%text>", "</%text>", "<%doc>", "</%doc>", "a", " "]

_state = {}


def setup_worker():
    from mako import exceptions, lexer, parsetree
    from mako.pygen import adjust_whitespace
    from mako.template import Template

    _state.update(
        Lexer=lexer.Lexer, Mon=lexmon.make_monitored_lexer(lexer.Lexer), parsetree=parsetree,
        exceptions=exceptions, Template=Template, adjust=adjust_whitespace,
    )


# ---------------------------------------------------------------- reference for literal/escape fragment
_coding = re.compile(r"#.*coding[:=]\s*([-\w.]+).*\r?\n")


def ref_render(src):
    """Expected output when src uses only literal text and the documented escapes; None when it
    contains anything else (the reference does not judge those)."""
    if _coding.match(src):
        return None
    out = []
    i, n = 0, len(src)
    while i < n:
        if i == 0 or src[i - 1] == "\n":
            m = re.compile(r"[ \t]*##").match(src, i)
            if m:
                e = i
                while e < n and src[e] not in "\r\n":
                    e += 1
                if e > i and src[e - 1] == "\\":
                    return None  # comment continued by a backslash: not judged
                if src.startswith("\r\n", e):
                    e += 2
                elif src.startswith("\n", e):
                    e += 1
                elif e < n:
                    return None  # lone CR inside a comment line: not judged
                i = e
                continue
            m = re.compile(r"([ \t]*)%%(%*)").match(src, i)
            if m:
                out.append(m.group(1) + "%" + m.group(2))
                i = m.end()
                continue
            if re.compile(r"\s*%").match(src, i):
                return None  # control line, or %% after exotic whitespace: not judged
        if src.startswith("${", i) or src.startswith("</%", i):
            return None
        if src.startswith("<%doc>", i):
            e = src.find("</%doc>", i + 6)
            if e < 0:
                return None
            i = e + 7
            continue
        if src.startswith("<%text>", i):
            e = src.find("</%text>", i + 7)
            if e < 0:
                return None
            out.append(src[i + 7 : e])
            i = e + 8
            continue
        if src.startswith("<%", i):
            return None
        if src.startswith("\\\r\n", i):
            i += 3
            continue
        if src.startswith("\\\n", i):
            i += 2
            continue
        out.append(src[i])
        i += 1
    return "".join(out)


# ---------------------------------------------------------------- tok part
def tok_strings(tier, seed, shard, nshards):
    plans = [(TOKENS, 3)] if tier == "quick" else [(TOKENS, 4), (TOKENS5, 5)]
    idx = 0
    batch = []
    for alpha, kmax in plans:
        for k in range(0, kmax + 1):
            for t in itertools.product(range(len(alpha)), repeat=k):
                if alpha is TOKENS5 and k <= 4:
                    continue  # already covered by the larger alphabet
                if idx % nshards == shard:
                    batch.append("".join(alpha[j] for j in t))
                    if len(batch) >= 2000:
                        yield {"kind": "tok", "strings": batch}
                        batch = []
                idx += 1
    if batch:
        yield {"kind": "tok", "strings": batch}


def walk(nodes):
    for nd in nodes:
        yield nd
        if hasattr(nd, "nodes") and not isinstance(nd, _state["parsetree"].ControlLine):
            yield from walk(nd.nodes)


class _LexTimeout(BaseException):
    pass


def _lex_timeout(signum, frame):
    raise _LexTimeout()


def check_source(src, res, want_render=True):
    ex = _state["exceptions"]
    pt = _state["parsetree"]
    lx = _state["Mon"](src)
    res.evaluations += 1
    try:
        # "lexing any string terminates": a short string that burns 20 s of this process's own CPU time (a virtual
        # timer, so a loaded machine does not count) does not; the worker must not hang on it either
        signal.signal(signal.SIGVTALRM, _lex_timeout)
        signal.setitimer(signal.ITIMER_VIRTUAL, 20.0)
        try:
            tree = lx.parse()
        finally:
            signal.setitimer(signal.ITIMER_VIRTUAL, 0)
    except _LexTimeout:
        res.violate("lexing-does-not-terminate", "Lexer(%r).parse() used more than 20 s of CPU time (%d characters)" % (src[:200], len(src)),
                    witness=repr(src[:80]), replay_case={"kind": "source", "source": src})
        return
    except (ex.SyntaxException, ex.CompileException):
        res.count("parses_rejected")
        expected = ref_render(src)
        if expected is not None:
            fid = None
            res.violate(
                "literal-rejected",
                "source %r uses only literal text and documented escapes (expected output %r) but the lexer raised" % (src, expected),
                finding=fid, witness=repr(src), replay_case={"kind": "source", "source": src},
            )
        return
    except Exception as e:
        res.violate("non-mako-exception", "Lexer(%r).parse() raised %s: %s" % (src, type(e).__name__, e), replay_case={"kind": "source", "source": src})
        return
    res.count("parses_returned")
    probs = lexmon.check_trace(lx, pt, _state["adjust"])
    res.count("steps_checked", len(lx.mon_steps))
    res.count("match_reg_calls", lx.mon_regs)
    for kind, detail in probs:
        fid = None
        res.violate(kind, detail, finding=fid, witness=repr(src), replay_case={"kind": "source", "source": src})
    kinds = {s.name for s in lx.mon_steps}
    if kinds - {"match_text", "match_end"}:
        res.nontrivial("tok", src)
    if not want_render:
        return
    nodes = list(walk(tree.nodes))
    textonly = all(
        isinstance(nd, (pt.Text, pt.Comment)) or (isinstance(nd, pt.TextTag) and not nd.attributes)
        for nd in nodes
    )
    expected = ref_render(src)
    if not textonly and expected is None:
        return
    try:
        out = _state["Template"](src).render_unicode()
    except (ex.SyntaxException, ex.CompileException) as e:
        if expected is not None:
            res.violate("literal-rejected", "Template(%r) raised %s; expected output %r" % (src, e, expected))
        return
    except Exception as e:
        if textonly or expected is not None:
            res.violate("render-raises", "Template(%r).render_unicode() raised %s: %s" % (src, type(e).__name__, e))
        return
    if textonly:
        res.count("renders_compared")
        concat = "".join(nd.content for nd in nodes if isinstance(nd, pt.Text))
        if out != concat:
            res.violate("render-differs-from-nodes", "Template(%r) rendered %r, Text nodes spell %r" % (src, out, concat), replay_case={"kind": "source", "source": src})
    if expected is not None:
        res.count("ref_renders_compared")
        if out != expected:
            fid = None
            res.violate("render-differs-from-reference", "Template(%r) rendered %r, expected %r" % (src, out, expected), finding=fid, witness=repr(src), replay_case={"kind": "source", "source": src})


# ---------------------------------------------------------------- doc part
SAFE_FILL = "·"


def rand_text(r, nmax=24):
    pools = [
        "abc xyz 0123 .,;:!?()[]",
        "%#$<>\\/{}|\"'=&@~^*-+_",
        "éüñßøЖдж中文字日本語한국어",
        "\t \x0b\x0c\x1c\x1d\x85   　﻿",
        "\U0001f600\U00010348\U0001d11e\U000e0041",
        "\x01\x02\x07\x08\x1b\x7f",
    ]
    out = []
    for _ in range(r.randint(1, nmax)):
        k = r.random()
        if k < 0.45:
            out.append(r.choice(pools[0]))
        elif k < 0.7:
            out.append(r.choice(pools[1]))
        elif k < 0.8:
            out.append(r.choice(pools[2]))
        elif k < 0.86:
            out.append(r.choice(pools[3]))
        elif k < 0.9:
            out.append(r.choice(pools[4]))
        elif k < 0.93:
            out.append(r.choice(pools[5]))
        elif k < 0.97:
            out.append(r.choice(["\n", "\r\n", "\r", "\n\n"]))
        else:
            c = r.randrange(0x20, 0x110000)
            out.append(chr(0x41 if 0xD800 <= c <= 0xDFFF else c))
    return "".join(out)


def sanitize_literal(s, at_line_start, last=False):
    """Break every sequence that would form a directive, by inserting a filler character."""
    s = s.replace("coding", "cod·ing")
    s = s.replace("${", "$·{").replace("<%", "<·%").replace("</%", "</·%")
    s = s.replace("\\\r\n", "\\·\r\n").replace("\\\n", "\\·\n")
    lines = s.split("\n")
    for i, ln in enumerate(lines):
        if i == 0 and not at_line_start:
            continue
        m = re.match(r"\s*(%|##)", ln)
        if m:
            lines[i] = SAFE_FILL + ln
    s = "\n".join(lines)
    # the run must not end with the beginning of a directive that the next segment could complete
    if s.endswith(("$", "<", "</", "\\", "\\\r")):
        s += SAFE_FILL
    # a whitespace-only tail after a newline would make the NEXT segment line-leading
    tail = s.rsplit("\n", 1)[-1]
    if tail and not tail.strip() and ("\n" in s or at_line_start):
        s += SAFE_FILL
    return s


WRAPS = {
    # name: (prefix, suffix): the document is the body of a def / block written once; same expected output
    "def": ('<%def name="w_()">', "</%def>${w_()}"),
    "def-filter-n": ('<%def name="w_()" filter="n">', "</%def>${w_()}"),
    "def-buffered": ('<%def name="w_()" buffered="True">', "</%def>${w_()}"),
    "def-capture": ('<%def name="w_()">', "</%def>${capture(w_)}"),
    "block": ("<%block>", "</%block>"),
    "block-named": ('<%block name="w_">', "</%block>"),
    "block-filter-n": ('<%block filter="n">', "</%block>"),
    "call-body": ('<%def name="w_()">${caller.body()}</%def><%call expr="w_()">', "</%call>"),
}


def gen_doc(r, wrap=None):
    """-> (source, expected, kinds)"""
    segs = []  # (src, expected, kind)
    at_ls = True
    nseg = r.randint(5, 60)
    eol = r.choice(["\n", "\n", "\r\n"])
    open_ctl = []
    for si in range(nseg):
        k = r.random()
        if at_ls and k < 0.10:
            ws = r.choice(["", " ", "\t", "   ", " \t "])
            extra = "%" * r.choice([0, 0, 1, 3])
            segs.append((ws + "%%" + extra, ws + "%" + extra, "percent"))
            at_ls = False
        elif at_ls and k < 0.20:
            ws = r.choice(["", " ", "\t", "    "])
            body = rand_text(r, 10).replace("\r", "").replace("\n", "")
            if body.endswith("\\"):
                body += "."
            segs.append((ws + "##" + body + eol, "", "comment"))
            at_ls = True
        elif at_ls and k < 0.27:
            ws = r.choice(["", "  ", "\t"])
            kind = r.choice(["if", "for", "while-free"])
            if kind == "if":
                segs.append((ws + "% if True:" + eol, "", "ctl-if"))
                open_ctl.append((ws, "if"))
            elif kind == "for":
                segs.append((ws + "%for _i in (1,):" + eol, "", "ctl-for"))
                open_ctl.append((ws, "for"))
            elif open_ctl:
                w, kw = open_ctl.pop()
                segs.append((w + "% end" + kw + eol, "", "ctl-end"))
            at_ls = True
        elif k < 0.33:
            nl = r.choice(["\n", "\r\n"])
            segs.append(("\\" + nl, "", "continuation"))
            at_ls = True
        elif k < 0.40:
            body = rand_text(r, 12).replace("</%doc>", "")
            body = body.replace("</%doc", "").replace("coding", "")
            segs.append(("<%doc>" + body + "</%doc>", "", "doc"))
            at_ls = False
        elif k < 0.48:
            body = r.choice(["${x}", "% if y:\n", "<%doc>q</%doc>", "## no\n", "<%def>", "%%", "\\\n", "</%textx>", "<%text>"]) + rand_text(r, 10)
            body = body.replace("</%text>", "")
            flt = r.choice([None, None, "n", "trim", "n,trim"])
            if flt is None:
                segs.append(("<%text>" + body + "</%text>", body, "text-tag"))
            else:
                # a filtered <%text> goes through a pushed buffer; what follows it must still be written
                segs.append(('<%%text filter="%s">' % flt + body + "</%text>", body.strip() if "trim" in flt else body, "text-tag-filtered"))
            at_ls = False
        elif k < 0.56:
            v = rand_text(r, 8)
            spelling = repr(v)
            pad = r.choice(["", " ", "  "])
            segs.append(("${" + pad + spelling + pad + "}", v, "expr"))
            at_ls = False
        elif k < 0.60:
            opts = ["<% pass %>", "<%\n  _q = 1\n%>", "<%\t_z = '%>'[0]\n%>"]
            if not open_ctl and wrap is None:
                # a <%! %> block as the only content of a control body leaves the generated
                # 'if' without a statement (IndentationError); outside this property's subject
                opts.append("<%! import os %>")
            segs.append((r.choice(opts), "", "code"))
            at_ls = False
        else:
            t = sanitize_literal(rand_text(r), at_ls)
            if not t:
                continue
            segs.append((t, t, "literal"))
            at_ls = t.endswith("\n")
    # close open control lines
    if open_ctl:
        if not at_ls:
            segs.append((eol, eol, "literal"))
        while open_ctl:
            w, kw = open_ctl.pop()
            segs.append((w + "% end" + kw + eol, "", "ctl-end"))
    # literal segments must not glue to a following segment into a directive: re-check joins
    src_parts, exp_parts, kinds = [], [], []
    for i, (s, e, kd) in enumerate(segs):
        if kd == "literal" and i + 1 < len(segs):
            nxt = segs[i + 1][0]
            if (s.endswith("$") and nxt.startswith("{")) or (s.endswith("<") and nxt.startswith(("%", "/%"))) or (s.endswith("</") and nxt.startswith("%")) or (s.endswith("\\") and nxt.startswith(("\n", "\r\n"))) or (s.endswith("\\\r") and nxt.startswith("\n")):
                s = e = s + SAFE_FILL
            elif nxt.startswith("#") and re.match(r"^[ \t]*#$", s.rsplit("\n", 1)[-1]) and ("\n" in s or i == 0 or segs[i - 1][0].endswith("\n")):
                # a lone '#' opening a line, completed to a '##' comment by the next segment
                s = e = s + SAFE_FILL
        if kd == "literal" and src_parts and segs[i - 1][2] != "literal":
            # a literal after a mid-line directive is mid-line; after a line-consuming one it is at line start
            pass
        src_parts.append(s)
        exp_parts.append(e)
        kinds.append(kd)
    if wrap is not None:
        pre, suf = WRAPS[wrap]
        # the newline keeps the document's first segment at a line start; it belongs to the wrapped body
        src_parts = [pre + "\n"] + src_parts + [suf]
        exp_parts = ["\n"] + exp_parts
        kinds.append("wrap-" + wrap)
    return "".join(src_parts), "".join(exp_parts), kinds


def run_doc(case, res):
    r = common.rng_for(case["seed"], "c01doc", case["index"])
    for j in range(case["n"]):
        wrap = r.choice(sorted(WRAPS)) if r.random() < 0.3 else None
        src, expected, kinds = gen_doc(r, wrap)
        if wrap is not None:
            res.count("docs_wrapped")
        if _coding.match(src):
            continue
        res.evaluations += 1
        try:
            out = _state["Template"](src).render_unicode()
        except Exception as e:
            res.violate("doc-raises", "well-formed document %r raised %s: %s" % (src, type(e).__name__, e), witness=repr(src), replay_case={"kind": "docsource", "source": src, "expected": expected})
            continue
        res.count("docs_rendered")
        if out != expected:
            res.violate("doc-output", "document %r rendered %r, expected %r" % (src, out, expected), witness=repr(src), replay_case={"kind": "docsource", "source": src, "expected": expected})
        if len(set(kinds)) >= 3:
            res.nontrivial("doc", src)
        # the same document through the cursor monitor
        check_source(src, res, want_render=False)
        if res.sample is None:
            res.sample = {"kind": "doc", "source": src[:300], "segment_kinds": kinds[:20]}


# ---------------------------------------------------------------- growth part
ATTR_WITNESS = "'<%a' + ' ='*n + '!' (whitespace and '=' / ',' repeated behind a tag name that is never closed)"
OPENERS = ["<%a", "<%a x=", '<%a x="', "${", "${a|", "<%", "<%!", "% if ", "%", " \t% ", "</%", "<%text>", "<%doc>", "## ", "  ##", ""]
UNITS1 = ['"', "'", " ", "\t", "=", ",", "{", "(", "[", "\\", "#", "</%", "<%", "${", "%", "w", "\n", "}", "|", "\\\n", "%%", "'''"]
TERMS = ["", "!", ">", "}", "%>", "\r", "\rx", "\\"]   # (a lone CR ends neither a control line nor a comment)
SMALL = [8, 12, 16, 20, 24, 28]
LARGE = [1000, 2000, 4000, 8000]
CHILD = r"""
import sys, time, json, resource
sys.path.insert(0, sys.argv[1])
from mako.lexer import Lexer
from mako import exceptions
spec = json.loads(sys.argv[2])
resource.setrlimit(resource.RLIMIT_CPU, (spec["cap"], spec["cap"] + 5))
for n in spec["sizes"]:
    src = spec["opener"] + spec["unit"] * n + spec["term"]
    t0 = time.process_time()
    try:
        Lexer(src).parse(); outcome = "tree"
    except (exceptions.SyntaxException, exceptions.CompileException):
        outcome = "mako-exception"
    except RecursionError:
        outcome = "recursion"
    except Exception as e:
        outcome = "other:" + type(e).__name__
    dt = time.process_time() - t0
    print(json.dumps([n, dt, outcome]), flush=True)
    if dt > spec["stop_after"]:
        break
"""


def growth_families(tier):
    fams = []
    units = list(UNITS1)
    pairs = [a + b for a in UNITS1[:14] for b in UNITS1[:14] if a != b]
    units += pairs
    for op in OPENERS:
        for u in units:
            for t in TERMS:
                fams.append((op, u, t))
    if tier == "quick":
        # all single-token units with two terminators, and pair units behind the tag/expression openers
        sel = [f for f in fams if (f[1] in UNITS1 and f[2] in ("", "!")) or (f[0] in ("<%a", "<%a x=", "${") and f[2] == "!")
               or (f[0] in ("%", " \t% ", "## ", "  ##", "% if ") and f[1] in ("w", " ", "=", "#") and f[2] in ("\r", "\rx", "\\"))]
        return sel
    return fams


def measure(op, unit, term, sizes, cap, stop_after):
    spec = {"opener": op, "unit": unit, "term": term, "sizes": sizes, "cap": cap, "stop_after": stop_after}
    p = subprocess.run(
        [sys.executable, "-c", CHILD, common.REPO, json.dumps(spec)],
        stdout=subprocess.PIPE, stderr=subprocess.PIPE, text=True, timeout=cap * 4 + 60,
    )
    pts = []
    for ln in p.stdout.splitlines():
        try:
            pts.append(json.loads(ln))
        except ValueError:
            pass
    return pts, p.returncode


def is_attr_backtracking(op, unit):
    """recogniser for C01/tag-attr-regex-exponential: a tag opener followed by repeated
    whitespace+('='|',') units - the ambiguous \\s*=\\s* / \\s*,\\s* alternatives of the tag regex."""
    if not op.startswith("<%a"):
        return False
    u = unit
    return bool(re.fullmatch(r"(?:[ \t\n]+[=,]|[=,][ \t\n]+)+", u)) or bool(re.fullmatch(r"[ \t\n]+", u))


def run_growth(case, res):
    FLOOR = 0.25
    for op, unit, term in case["families"]:
        res.evaluations += 1
        fam = "%r + %r*n + %r" % (op, unit, term)
        fid = "C01/tag-attr-regex-exponential" if is_attr_backtracking(op, unit) else None
        pts, rc = measure(op, unit, term, SMALL, cap=20, stop_after=4.0)
        bad = [p for p in pts if p[2].startswith("other")]
        if bad:
            res.violate("non-mako-exception", "family %s at n=%d: %s" % (fam, bad[0][0], bad[0][2]))
        times = {p[0]: p[1] for p in pts}
        expo = False
        ns = [n for n in SMALL if n in times]
        for a, b, c in zip(ns, ns[1:], ns[2:]):
            if times[c] >= FLOOR and times[a] > 0 and times[b] > 0 and times[b] / times[a] >= 8 and times[c] / times[b] >= 8:
                expo = True
        if rc != 0 and len(pts) < len(SMALL):
            # killed by the CPU cap at n <= 28 repetitions
            expo = True
        if expo:
            res.violate(
                "superpolynomial-time",
                "family %s: CPU seconds by n = %s%s" % (fam, {n: round(t, 4) for n, t in times.items()}, " (CPU cap hit)" if rc != 0 else ""),
                finding=fid, witness=(ATTR_WITNESS if fid else fam),
            )
            res.count("growth_families_measured")
            continue
        if pts and pts[-1][1] > 4.0:
            # slow but not (yet) judged exponential on the small sizes: do not run the large sizes
            res.violate("superpolynomial-time", "family %s needs %.1fs CPU at n=%d" % (fam, pts[-1][1], pts[-1][0]), finding=fid, witness=(ATTR_WITNESS if fid else fam))
            continue
        pts2, rc2 = measure(op, unit, term, LARGE, cap=60, stop_after=20.0)
        bad = [p for p in pts2 if p[2].startswith("other") or p[2] == "recursion"]
        if bad:
            res.violate("non-mako-exception", "family %s at n=%d: %s" % (fam, bad[0][0], bad[0][2]))
        t2 = {p[0]: p[1] for p in pts2}
        ns = [n for n in LARGE if n in t2]
        import math

        steep = 0
        for a, b in zip(ns, ns[1:]):
            if t2[b] >= FLOOR and t2[a] > 0 and math.log2(t2[b] / t2[a]) > 5:
                steep += 1
            else:
                steep = 0
            if steep >= 2:
                res.violate("superpolynomial-time", "family %s: CPU seconds by n = %s" % (fam, t2), finding=fid, witness=(ATTR_WITNESS if fid else fam))
                break
        if rc2 != 0:
            res.count("growth_cap_hit_large")
        res.count("growth_families_measured")
        res.nontrivial("growth", op, unit, term)
        if res.sample is None and ns:
            res.sample = {"kind": "growth", "family": fam, "cpu_s": {str(n): round(t2[n], 4) for n in ns}}


# ---------------------------------------------------------------- case plumbing
SHARDED_GEN = True


HOSTILE_CHARS = ["\x00", "\x0c", "\x1a", "\x1b", "\x7f", "\x85", "\ufeff", "\u2028", "\u2029", "\ud800", "\U0010ffff", "\r", "\x0b"]
HOSTILE_FRAMES = [
    "${%s}", "${'a%s'}", "${x | f%s}", "${x | f('%s')}", "<%% y = '%s' %%>", "<%%! z = '%s' %%>", "<%%\n%s\n%%>", "%% if '%s':\nx\n%% endif\n", "%% for i in '%s':\nx\n%% endfor\n",
    '<%%def name="f(a=\'%s\')">x</%%def>', '<%%def name="f%s()">x</%%def>', "<%%include file=\"${'%s'}\"/>", '<%%include file="a%s.html"/>', '<%%page args="a=\'%s\'"/>',
    '<%%call expr="f(\'%s\')">x</%%call>', '<%%block filter="g(\'%s\')">x</%%block>', "<%%text>%s</%%text>", "<%%doc>%s</%%doc>", "## %s\n", "plain %s text", "%%%% %s",
]


def hostile_strings():
    """control characters, NUL, BOM, line/paragraph separators, a lone surrogate: inside every kind of directive and
    in literal text - lexing ends with a tree or a Mako exception, never with another exception"""
    return [fr % c for c in HOSTILE_CHARS for fr in HOSTILE_FRAMES]


def gen_cases(tier, seed, shard, nshards):
    if shard == 0:
        yield {"kind": "suite"}
        yield {"kind": "tok", "strings": hostile_strings()}
    yield from tok_strings(tier, seed, shard, nshards)
    ndocs = 3000 if tier == "quick" else 60000
    per = 50
    for i in range(ndocs // per):
        if i % nshards == shard:
            yield {"kind": "doc", "seed": seed, "index": i, "n": per}
    fams = growth_families(tier)
    per = 6
    for i in range(0, len(fams), per):
        if (i // per) % nshards == shard:
            yield {"kind": "growth", "families": fams[i : i + per]}


def run_case(case):
    res = common.CaseResult()
    k = case["kind"]
    if k == "tok":
        for s in case["strings"]:
            check_source(s, res)
        res.sample = {"kind": "tok", "first": case["strings"][:4], "n": len(case["strings"])}
    elif k == "doc":
        run_doc(case, res)
    elif k == "growth":
        run_growth(case, res)
    elif k == "suite":
        rep = common.run_suite_with_monitors()
        if rep is None:
            res.count("suite_skipped_no_tests")
        elif "error" in rep:
            res.violate("suite-run-failed", "the repository suite could not be run under the monitor: %s" % rep["error"])
        else:
            res.evaluations += rep["parses_returned"]
            res.count("suite_parses_monitored", rep["parses_returned"])
            res.count("suite_steps_checked", rep["steps"])
            for p in rep["lexer_problems"]:
                res.violate("suite-" + p["kind"], "while the repository's own tests ran: %s (source %r)" % (p["detail"], p.get("source")))
            res.sample = {"kind": "suite", "parses": rep["parses_returned"], "steps": rep["steps"], "pytest": rep.get("pytest_tail")}
    elif k == "source":
        check_source(case["source"], res)
    elif k == "docsource":
        res.evaluations += 1
        try:
            out = _state["Template"](case["source"]).render_unicode()
            if out != case["expected"]:
                res.violate("doc-output", "document %r rendered %r, expected %r" % (case["source"], out, case["expected"]))
        except Exception as e:
            res.violate("doc-raises", "well-formed document %r raised %s: %s" % (case["source"], type(e).__name__, e))
        check_source(case["source"], res, want_render=False)
    return res

"""C18 - template text round-trips through input and output encodings.

Differential against Python's own codecs plus by-construction expected output: templates whose text,
expression literals, <% %> string literals, def-default strings and tag attribute values draw
characters from the repertoire of the codec under test are encoded, declared in one of six ways
and compiled from bytes, from a file, into a module directory and reloaded from the module file
(same process and a fresh process); output_encoding/encoding_errors are checked against
render_unicode().encode().
"""
import codecs
import json
import os
import shutil
import subprocess
import sys
import tempfile

from mk import common

PROPERTY = "C18"
LEVEL = "exploration"
EXHAUSTIVE = {"quick": True, "thorough": True}
RULE = (
    "full grid codec {ascii, utf-8, latin-1, cp1251, cp1252, koi8-r, shift_jis, euc-jp, gb2312, iso-8859-15, "
    "utf-8+BOM} x declaration {comment, input_encoding, both agreeing, both conflicting, none, BOM+conflicting "
    "comment, declared-ascii-but-high-bytes} x path {bytes, file, module directory first load, module reload, "
    "reload in a fresh process (sampled)} x output {none, same codec strict, ascii replace, ascii "
    "xmlcharrefreplace, ascii htmlentityreplace, latin-1 strict}, with 30 (quick) / 200 (thorough) generated "
    "templates per cell; characters are sampled from the codec's own repertoire. distinct = (cell, template "
    "text); non-trivial = the template holds at least one non-ASCII character."
)
RULE += ' added since: stateful output codecs, corrupted declarations, module-head options (future_imports / imports) around the coding line, get_def(..).render identity of encoded output. the output identities also on templates built by a TemplateLookup that carries output_encoding / encoding_errors. lone surrogates under nine error handlers and ten output codecs through Template, TemplateLookup and get_def. ModuleTemplate and ModuleTemplate.get_def as routes of the unencodable-everywhere scenario.'
ASSUMPTIONS = ["CPython codecs are the reference; only ASCII-compatible encodings are in scope"]
MIN_NONTRIVIAL = 200
RULE += " def defaults that spell a character outside the file's codec as an escape."
RULE += " declaration lines longer than 128 and 200 bytes (text before, or an editor modeline after, the coding declaration)."
REQUIRED_COUNTERS = ["renders_compared", "expected_compile_errors_seen", "module_reloads", "fresh_process_reloads", "output_encodings_compared", "strict_encode_errors_matched"]
REQUIRED_COUNTERS += ["unencodable_everywhere_compared"]

CODECS = ["ascii", "utf-8", "latin-1", "cp1251", "cp1252", "koi8-r", "shift_jis", "euc-jp", "gb2312", "iso-8859-15", "utf-8-bom"]
DECLS = ["comment", "input_encoding", "both", "conflict", "none", "bom_conflict", "ascii_lie", "corrupt", "corrupt_comment"]
OUTPUTS = [None, ("same", "strict"), ("ascii", "replace"), ("ascii", "xmlcharrefreplace"), ("ascii", "htmlentityreplace"), ("latin-1", "strict"),
           # codecs whose encoder keeps state across the document (a leading BOM, shift sequences): the whole output
           # is one encode() call, not one per written piece
           ("utf-16", "strict"), ("utf-8-sig", "strict"), ("utf-32", "strict"), ("iso2022_jp", "replace"), ("utf-7", "strict"), ("hz", "replace"),
           ("shift_jis", "xmlcharrefreplace"), ("cp1251", "htmlentityreplace")]

_st = {}
_rep = {}


def setup_worker():
    from mako import exceptions
    from mako.lookup import TemplateLookup
    from mako.template import Template

    _st.update(TemplateLookup=TemplateLookup, Template=Template, exceptions=exceptions, tmp=tempfile.mkdtemp(prefix="c18-"), n=0)
    import atexit

    atexit.register(lambda: shutil.rmtree(_st["tmp"], ignore_errors=True))


def repertoire(codec):
    if codec in _rep:
        return _rep[codec]
    real = "utf-8" if codec == "utf-8-bom" else codec
    chars = set()
    if real == "ascii":
        pass
    elif real == "utf-8":
        chars.update("éüñßøЖдж中文字日本語한국어€—“”∑√אبπ")
    else:
        for b in range(0x80, 0x100):
            try:
                chars.update(bytes([b]).decode(real))
            except UnicodeDecodeError:
                pass
        if real in ("shift_jis", "euc-jp", "gb2312"):
            for lead in range(0x81, 0xFF, 3):
                for trail in range(0x40, 0xFF, 5):
                    try:
                        chars.update(bytes([lead, trail]).decode(real))
                    except UnicodeDecodeError:
                        pass
    good = sorted(c for c in chars if c.isprintable() and not c.isspace() and ord(c) > 0x7F and c.encode(real).decode(real) == c)
    _rep[codec] = good
    return good


def rand_word(r, codec, n=None):
    rep = repertoire(codec)
    n = n or r.randint(1, 6)
    out = []
    for _ in range(n):
        if rep and r.random() < 0.6:
            out.append(r.choice(rep))
        else:
            out.append(r.choice("abcxyz019 ._-"))
    return "".join(out)


def gen_template(r, codec):
    """-> (text without declaration, expected output)"""
    parts, exp = [], []
    w = lambda: rand_word(r, codec)  # noqa: E731
    t = w()
    parts.append(t)
    exp.append(t)
    for _ in range(r.randint(2, 6)):
        k = r.randrange(7)
        v = w()
        if k == 0:
            parts.append("${'%s'}" % v)
            exp.append(v)
        elif k == 1:
            parts.append("<% s_ = '" + v + "' %>${s_}")
            exp.append(v)
        elif k == 2:
            nm = "f%d" % len(parts)
            parts.append("<%%def name=\"%s(a='%s')\">[${a}]</%%def>${%s()}" % (nm, v, nm))
            exp.append("[" + v + "]")
        elif k == 3:
            nm = "h%d" % len(parts)
            parts.append("<%%def name=\"%s(a)\">(${a})</%%def><%%self:%s a=\"%s\"/>" % (nm, nm, v))
            exp.append("(" + v + ")")
        elif k == 6:
            # a character that the file's codec does not have, written as an escape (ASCII) in a def default
            nm = "e%d" % len(parts)
            star = "*, " if len(parts) % 2 else ""   # ... also of a keyword-only parameter
            parts.append("<%%def name=\"%s(%sa='\\U0001f600%s')\">{${a}}</%%def>${%s()}" % (nm, star, v, nm))
            exp.append("{\U0001f600" + v + "}")
        elif k == 4:
            parts.append("\n%% if True:\n%s\n%% endif\n" % v)
            exp.append("\n" + v + "\n")
        else:
            parts.append(v)
            exp.append(v)
    return "".join(parts), "".join(exp)


def build(codec, decl, body):
    """-> (bytes, kwargs for Template, expectation) expectation: ('ok', decoded_text) | ('error',) | None (cell not applicable)"""
    real = "utf-8" if codec == "utf-8-bom" else codec
    bom = codecs.BOM_UTF8 if codec == "utf-8-bom" else b""
    # the declaration line may be long: an editor modeline after the declaration, or text before it on the same line
    style = (len(body) + len(real)) % 3
    head, tail = [("", ""), ("", " vim: set ft=mako ts=4 sw=4 et tw=120 :" * 5), ("generated by tool %s; " % ("x" * 140), "")][style]
    comment = "## %s-*- coding: %s -*-%s\n" % (head, real, tail)
    other = "ascii" if real != "ascii" else "utf-8"
    nonascii = any(ord(c) > 127 for c in body)
    if decl == "comment":
        data = bom + (comment + body).encode(real)
        return data, {}, ("ok",)
    if decl == "input_encoding":
        if bom:
            # a BOM decides by itself; input_encoding must not disturb it
            return bom + body.encode(real), {"input_encoding": real}, ("ok",)
        return body.encode(real), {"input_encoding": real}, ("ok",)
    if decl == "both":
        return bom + (comment + body).encode(real), {"input_encoding": real}, ("ok",)
    if decl == "conflict":
        if bom:
            return None
        # comment says the truth, input_encoding lies: the comment takes precedence
        return (comment + body).encode(real), {"input_encoding": other}, ("ok",)
    if decl == "none":
        data = bom + body.encode(real)
        try:
            data[len(bom):].decode("utf-8")
        except UnicodeDecodeError:
            return data, {}, ("error",)
        return data, {}, ("ok-as", data[len(bom):].decode("utf-8"))
    if decl == "bom_conflict":
        if not bom or not nonascii:
            return None
        return bom + ("## %s-*- coding: latin-1 -*-%s\n" % (head, tail) + body).encode("utf-8"), {}, ("error",)
    if decl == "ascii_lie":
        if not nonascii or real == "ascii" or bom:
            return None
        return ("## %s-*- coding: ascii -*-%s\n" % (head, tail) + body).encode(real), {}, ("error",)
    if decl in ("corrupt", "corrupt_comment"):
        # a byte sequence that the declared codec cannot decode, in the middle of the text
        k = len(body) // 2
        for bad in (b"\xff", b"\x81", b"\xe6\x97", b"\x80"):
            data = body[:k].encode(real) + bad + body[k:].encode(real)
            try:
                data.decode(real)
            except UnicodeDecodeError:
                break
        else:
            return None  # every byte string decodes in this codec
        if decl == "corrupt_comment":
            return bom + comment.encode("ascii") + data, {}, ("error",)
        if bom:
            return bom + data, {}, ("error",)
        return data, {"input_encoding": real}, ("error",)
    raise ValueError(decl)


FRESH = r"""
import sys, json
sys.path.insert(0, sys.argv[1])
from mako.template import Template
spec = json.load(open(sys.argv[2]))
t = Template(filename=spec["filename"], module_directory=spec["moddir"], **spec["kw"])
print(json.dumps({"out": t.render_unicode(), "source": t.source}))
"""


def run_cell(case, res):
    T = _st["Template"]
    ex = _st["exceptions"]
    codec, decl = case["codec"], case["decl"]
    real = "utf-8" if codec == "utf-8-bom" else codec
    r = common.rng_for(case["seed"], "c18", codec, decl)
    for j in range(case["n"]):
        body, expected = gen_template(r, codec)
        b = build(codec, decl, body)
        if b is None:
            res.count("cells_not_applicable")
            return
        data, kw, expn = b
        if r.random() < 0.25:
            # other options that change the head of the generated module must not disturb its encoding declaration
            kw = dict(kw, future_imports=["annotations"]) if r.random() < 0.6 else dict(kw, imports=["import os"], strict_undefined=True)
            res.count("cells_with_module_head_options")
        if expn[0] == "ok-as":
            # undeclared non-UTF-8 bytes that happen to be valid UTF-8 mean what UTF-8 says
            ref = T(expn[1])
            expected = ref.render_unicode()
        nonascii = any(ord(c) > 127 for c in body)
        _st["n"] += 1
        d = os.path.join(_st["tmp"], "t%d" % _st["n"])
        os.makedirs(d)
        fn = os.path.join(d, "t.html")
        with open(fn, "wb") as f:
            f.write(data)
        md = os.path.join(d, "mods")
        paths = {
            "bytes": lambda: T(data, **kw),
            "file": lambda: T(filename=fn, **kw),
            "module-first": lambda: T(filename=fn, module_directory=md, **kw),
            "module-reload": lambda: T(filename=fn, module_directory=md, **kw),
        }
        what0 = "codec=%s declaration=%s bytes=%r kwargs=%r" % (codec, decl, data[:120], kw)
        rc = {"kind": "one", "data": data.hex(), "kw": kw, "expect": list(expn), "expected": expected, "codec": codec, "decl": decl}
        outs = {}
        for pname, ctor in paths.items():
            res.evaluations += 1
            what = what0 + " path=" + pname
            try:
                t = ctor()
            except ex.CompileException as e:
                if expn[0] == "error":
                    res.count("expected_compile_errors_seen")
                else:
                    res.violate("unexpected-compile-error", "%s raised CompileException: %s" % (what, e), replay_case=rc)
                continue
            except Exception as e:
                res.violate("wrong-exception", "%s raised %s: %s%s" % (what, type(e).__name__, e, " (CompileException expected)" if expn[0] == "error" else ""), replay_case=rc)
                continue
            if expn[0] == "error":
                res.violate("undecodable-accepted", "%s compiled although the input cannot be decoded as declared" % what, replay_case=rc)
                continue
            if pname == "module-reload":
                res.count("module_reloads")
            try:
                out = t.render_unicode()
            except Exception as e:
                res.violate("render-raises", "%s render raised %s: %s" % (what, type(e).__name__, e), replay_case=rc)
                continue
            res.count("renders_compared")
            outs[pname] = out
            if out != expected:
                res.violate("output-differs", "%s rendered %r, expected %r" % (what, out, expected), replay_case=rc)
            # Template.source == the decoded text
            try:
                src = t.source
                dec = data[3:].decode("utf-8") if codec == "utf-8-bom" else data.decode(real if expn[0] == "ok" else "utf-8")
                if src.lstrip("﻿") != dec:
                    res.violate("source-differs", "%s: Template.source = %r, decoded text is %r" % (what, src[:200], dec[:200]), replay_case=rc)
            except Exception as e:
                res.violate("source-raises", "%s: Template.source raised %s: %s" % (what, type(e).__name__, e), replay_case=rc)
            if pname == "bytes":
                check_output_side(t, T, data, kw, out, res, what, rc, real)
            if pname == "file":
                # the same identities for templates that a TemplateLookup builds with ITS output_encoding/encoding_errors
                def Tlk(_data, **k):
                    return _st["TemplateLookup"](directories=[os.path.dirname(fn)], **k).get_template("/" + os.path.basename(fn))

                check_output_side(t, Tlk, data, kw, out, res, what + " (through a TemplateLookup)", rc, real)
        if expn[0] != "error" and nonascii:
            res.nontrivial("c18", codec, decl, body)
        # reload in a fresh process (sampled)
        if expn[0] != "error" and j == 0 and os.path.isdir(md):
            sp = os.path.join(d, "spec.json")
            with open(sp, "w") as f:
                json.dump({"filename": fn, "moddir": md, "kw": kw}, f)
            env = dict(os.environ, PYTHONHASHSEED="0")
            p = subprocess.run([sys.executable, "-c", FRESH, common.REPO, sp], stdout=subprocess.PIPE, stderr=subprocess.PIPE, text=True, env=env, timeout=120)
            res.count("fresh_process_reloads")
            try:
                o = json.loads(p.stdout.strip().splitlines()[-1])
                if o["out"] != expected:
                    res.violate("output-differs", "%s path=fresh-process-reload rendered %r, expected %r" % (what0, o["out"], expected), replay_case=rc)
            except Exception:
                res.violate("fresh-reload-fails", "%s path=fresh-process-reload: rc=%s err=%s" % (what0, p.returncode, p.stderr[-400:]), replay_case=rc)
        shutil.rmtree(d, ignore_errors=True)
        if res.sample is None:
            res.sample = {"codec": codec, "declaration": decl, "bytes": repr(data[:160]), "expected": expected[:80]}


def check_output_side(t, T, data, kw, uni, res, what, rc, real):
    for o in OUTPUTS:
        if o is None:
            r = t.render()
            if type(r) is not str or r != uni:
                res.violate("render-type", "%s: render() without output_encoding gave %r" % (what, type(r)), replay_case=rc)
            continue
        enc, errors = o
        enc = real if enc == "same" else enc
        t2 = T(data, output_encoding=enc, encoding_errors=errors, **kw)
        res.evaluations += 1
        u2 = t2.render_unicode()
        if type(u2) is not str or u2 != uni:
            res.violate("render-unicode-affected", "%s: render_unicode() with output_encoding=%s gave %r" % (what, enc, u2), replay_case=rc)
        try:
            expb = uni.encode(enc, errors)
            experr = None
        except UnicodeEncodeError as e:
            expb, experr = None, e
        try:
            got = t2.render()
            goterr = None
        except UnicodeEncodeError as e:
            got, goterr = None, e
        except Exception as e:
            res.violate("render-raises", "%s: render() with output_encoding=%s/%s raised %s: %s" % (what, enc, errors, type(e).__name__, e), replay_case=rc)
            continue
        res.count("output_encodings_compared")
        if experr is not None:
            if goterr is None:
                res.violate("encode-error-swallowed", "%s: output_encoding=%s/%s: encode() raises %s but render() returned %r" % (what, enc, errors, experr, got), replay_case=rc)
            else:
                res.count("strict_encode_errors_matched")
        elif goterr is not None:
            res.violate("render-raises", "%s: output_encoding=%s/%s render() raised %s" % (what, enc, errors, goterr), replay_case=rc)
        elif got != expb:
            res.violate("encoded-output-differs", "%s: output_encoding=%s/%s render() = %r, render_unicode().encode() = %r" % (what, enc, errors, got, expb), replay_case=rc)
        # the same identity for a single def rendered through get_def(name)
        for dn in [d for d in t2.list_defs() if d.startswith("f")][:1]:
            dt = t2.get_def(dn)
            du = dt.render_unicode()
            try:
                dexp = ("ok", du.encode(enc, errors))
            except UnicodeEncodeError:
                dexp = ("UnicodeEncodeError",)
            try:
                dgot = ("ok", dt.render())
            except UnicodeEncodeError:
                dgot = ("UnicodeEncodeError",)
            except Exception as e:
                dgot = ("exc", "%s: %s" % (type(e).__name__, e))
            res.count("def_output_encodings_compared")
            if dgot != dexp:
                res.violate("def-encoded-output-differs", "%s: output_encoding=%s/%s get_def(%r).render() = %r, render_unicode().encode() = %r" % (what, enc, errors, dn, dgot, dexp), replay_case=rc)


def run_unencodable_everywhere(res):
    """render() == render_unicode().encode(output_encoding, encoding_errors) also for text that NO codec encodes
    strictly - lone surrogates (os.fsdecode of an undecodable file name) - under every error handler, the UTF codecs
    included; UnicodeEncodeError where encode() raises it"""
    T = _st["Template"]
    L = _st["TemplateLookup"]
    src = "<%def name=\"f1()\">[${v}${'\\udce9'}]</%def>x${v}y${'\\udce9'}|${f1()}"
    for enc in ("utf-8", "UTF-8", "utf8", "utf_8", "utf-16", "utf-32", "utf-16-le", "ascii", "latin-1", "cp1251"):
        for errors in ("strict", "replace", "ignore", "backslashreplace", "xmlcharrefreplace", "surrogatepass", "surrogateescape", "htmlentityreplace", "namereplace"):
            for v in ("\ud800", "caf\udce9.txt", "plain", "\u20ac"):
                for route in ("Template", "TemplateLookup", "get_def", "ModuleTemplate", "ModuleTemplate.get_def"):
                    try:
                        if route.startswith("ModuleTemplate"):
                            from mako.template import ModuleTemplate
                            t = ModuleTemplate(T(src).module, output_encoding=enc, encoding_errors=errors)
                            if route.endswith("get_def"):
                                t = t.get_def("f1")
                        elif route == "TemplateLookup":
                            lk = L(output_encoding=enc, encoding_errors=errors)
                            lk.put_string("s.html", src)
                            t = lk.get_template("s.html")
                        else:
                            t = T(src, output_encoding=enc, encoding_errors=errors)
                        if route == "get_def":
                            t = t.get_def("f1")
                        uni = t.render_unicode(v=v)
                    except Exception as e:
                        res.violate("render-raises", "surrogate template, output_encoding=%s/%s via %s: %s: %s" % (enc, errors, route, type(e).__name__, e))
                        continue
                    try:
                        exp = ("ok", uni.encode(enc, errors))
                    except UnicodeEncodeError:
                        exp = ("UnicodeEncodeError",)
                    except Exception as e:
                        exp = ("exc", type(e).__name__)
                    try:
                        got = ("ok", t.render(v=v))
                    except UnicodeEncodeError:
                        got = ("UnicodeEncodeError",)
                    except Exception as e:
                        got = ("exc", type(e).__name__)
                    res.evaluations += 1
                    res.count("unencodable_everywhere_compared")
                    if got != exp:
                        res.violate("encoded-output-differs", "template %r with v=%r, output_encoding=%s/%s via %s: render() = %r, render_unicode().encode() = %r" % (src, v, enc, errors, route, got, exp))
    res.nontrivial("surrogates")


def gen_cases(tier, seed):
    yield {"kind": "unencodable"}
    n = 30 if tier == "quick" else 200
    for codec in CODECS:
        for decl in DECLS:
            per = 10 if tier == "quick" else 25
            for i in range(0, n, per):
                yield {"kind": "cell", "codec": codec, "decl": decl, "seed": "%s-%d" % (seed, i), "n": per}


def run_case(case):
    res = common.CaseResult()
    if case["kind"] == "cell":
        run_cell(case, res)
    elif case["kind"] == "unencodable":
        run_unencodable_everywhere(res)
    elif case["kind"] == "one":
        T = _st["Template"]
        data = bytes.fromhex(case["data"])
        try:
            out = T(data, **case["kw"]).render_unicode()
            if case["expect"][0] == "error":
                res.violate("undecodable-accepted", "compiled, rendered %r" % out)
            elif out != case["expected"]:
                res.violate("output-differs", "rendered %r, expected %r" % (out, case["expected"]))
        except Exception as e:
            if case["expect"][0] != "error" or type(e).__name__ != "CompileException":
                res.violate("exception", "%s: %s" % (type(e).__name__, e))
    return res

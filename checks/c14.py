"""C14 - lookup serves fresh, stable, correctly prioritised templates over time.

History + executable model on a virtual clock (mk/vclock.py).  Every template body prints
"<uri>@<dir>#<version>", so a render states exactly which file version was served.  The model
predicts, per get_template: same object and zero constructions / a new object showing the current
version / which exception class; after every operation the LRU bound and the eviction order are
checked against the model's recency list.
"""
import itertools
import os
import shutil
import tempfile

from mk import common, vclock

PROPERTY = "C14"
LEVEL = "exploration"
EXHAUSTIVE = {"quick": True, "thorough": True}
RULE = (
    "histories over {tick, write good/broken file in dir i, delete, toggle unreadable, get_template, "
    "has_template, put_string, put_template} on 1-3 directories and 8 URIs, x filesystem_checks x "
    "collection_size {-1,1,2,4} x module_directory on/off: (a) every history of length <=4 (quick) / <=5 "
    "(thorough) over a 10-operation alphabet on 2 directories and 2 URIs, exhaustively, under 4 configs; (b) "
    "random histories of length 10-40. A history is non-trivial when at least one get_template was "
    "predicted to return a NEW object after a modification or eviction and one to return the SAME "
    "object; distinct by (config, operation list)."
)
RULE += ' added since: put_string / put_template over cached URIs and get_template of put URIs, has_template vs get_template agreement, postcondition on every put. has_template judged on its own (answers False, never raises a lookup error). freshness through a referring template (include / inherit / namespace / include_file; modify, delete, rewrite, put_string). op touch: a file rewritten with the same content. the referring scenario also with filesystem_checks off and put_template replacements.'
ASSUMPTIONS = [
    "virtual clock: mako.codegen.time, mako.util.timeit and the mtime of written module files are "
    "driven by the harness (whole-second steps); sources get their mtime with os.utime",
    "the process runs as root, so 'unreadable' is injected by making mako.util.read_file raise "
    "PermissionError for that path",
    "same-second modification after a compile may legitimately keep serving the compiled version",
]
MIN_NONTRIVIAL = 100
REQUIRED_COUNTERS = ["gets", "same_object_hits", "reloads_after_modification", "lru_evictions_checked", "toplevel_misses", "vanished_file_exceptions", "failed_compiles_then_fixed"]
REQUIRED_COUNTERS += ["referring_renders"]
RULE += " a file-backed Template registered under a second URI by put_template, its file modified twice, both URIs read three times after each change; then the file vanishes and the directories hold a file for the second URI."
REQUIRED_COUNTERS += ["alias_gets"]

_st = {}
URIS = ["/t0.html", "/t1.html", "/t2.html", "/sub/t3.html", "/sub/t4.html", "/t5.html", "/sub/deep/t6.html", "/t7.html"]


def setup_worker():
    import mako.template
    import mako.util
    from mako import exceptions
    from mako.lookup import TemplateLookup

    clock = vclock.install(vclock.Clock())
    _st.update(clock=clock, exceptions=exceptions, TemplateLookup=TemplateLookup, Template=mako.template.Template,
               unreadable=set(), constructions=[0])
    orig_read = mako.util.read_file

    def read_file(path, mode="rb"):
        if os.path.abspath(path) in _st["unreadable"]:
            raise PermissionError(13, "Permission denied (injected)", path)
        return orig_read(path, mode)

    mako.util.read_file = read_file
    orig_init = mako.template.Template.__init__

    def counting_init(self, *a, **kw):
        _st["constructions"][0] += 1
        return orig_init(self, *a, **kw)

    mako.template.Template.__init__ = counting_init


class World:
    def __init__(self, cfg):
        self.cfg = cfg
        self.base = tempfile.mkdtemp(prefix="c14-")
        self.dirs = [os.path.join(self.base, "d%d" % i) for i in range(cfg["ndirs"])]
        for d in self.dirs:
            os.makedirs(os.path.join(d, "sub", "deep"))
        kw = {}
        if cfg["moddir"]:
            kw["module_directory"] = os.path.join(self.base, "mods")
        self.lookup = _st["TemplateLookup"](
            directories=self.dirs, filesystem_checks=cfg["fs_checks"], collection_size=cfg["csize"], **kw
        )
        self.files = {}      # (d, uri) -> dict(version, mtime, kind)
        self.cache = {}      # uri -> dict(obj, file, version, c)
        self.recency = {}    # uri -> logical recency
        self.rc = 0
        self.version = 0
        self.compiled_at = {}  # (d, uri, version) -> logical time of last compile from source
        self.modules = {}    # uri -> dict(frm=(d,uri,version), mtime)
        self.flags = set()
        _st["unreadable"].clear()

    def close(self):
        shutil.rmtree(self.base, ignore_errors=True)

    def path(self, d, uri):
        return os.path.join(self.dirs[d], uri.lstrip("/"))

    def touch_recency(self, uri):
        self.rc += 1
        self.recency[uri] = self.rc


def do_write(w, d, uri, kind):
    w.version += 1
    v = w.version
    body = "%s@d%d#%d" % (uri, d, v)
    if kind == "broken":
        body += "\n${ unterminated"
    p = w.path(d, uri)
    with open(p, "w") as f:
        f.write(body)
    now = _st["clock"].now
    os.utime(p, (now, now))
    w.files[(d, uri)] = {"version": v, "mtime": now, "kind": kind}


def parse_render(out):
    try:
        uri, rest = out.split("@", 1)
        d, v = rest.split("#", 1)
        return uri, int(d[1:]) if d.startswith("d") else d, int(v)
    except Exception:
        return None


def acceptable_stale(w, file, shown_version):
    """same-second rule: an older version of the SAME file may be shown iff the current version was
    written no later than the second in which the shown version was compiled"""
    F = w.files.get(file)
    c = w.compiled_at.get((file[0], file[1], shown_version))
    return F is not None and c is not None and F["mtime"] <= c


def judge_new_object(w, res, t, uri, file, what, hist):
    """t must be a complete template showing the current version of `file`"""
    ex = _st["exceptions"]
    F = w.files[file]
    try:
        out = t.render_unicode()
    except Exception as e:
        res.violate("returned-template-unusable", "%s: render raised %s: %s" % (what, type(e).__name__, e), replay_case=hist)
        return None
    pr = parse_render(out)
    if pr is None:
        res.violate("unknown-content", "%s rendered %r" % (what, out), replay_case=hist)
        return None
    ruri, rd, rv = pr
    if ruri != uri:
        res.violate("wrong-template", "%s rendered %r" % (what, out), replay_case=hist)
        return None
    if (rd, rv) == (file[0], F["version"]):
        return rv
    if rd == file[0] and acceptable_stale(w, file, rv):
        res.count("same_second_stale_accepted")
        return rv
    fid = None
    M = w.modules.get(uri) if w.cfg["moddir"] else None
    if M is not None and rd != file[0] and M["mtime"] >= F["mtime"] and (M["frm"][0], M["frm"][2]) == (rd, rv):
        # recogniser: the module file of this URI was generated from the same URI in ANOTHER directory,
        # is not older than the source now being served, and is therefore reused as it stands
        fid = "C14/module-file-shared-across-directories"
    res.violate(
        "stale-or-wrong-version",
        "%s rendered %r but the file to serve is d%d%s version %d (mtime %d, clock %d)" % (what, out, file[0], uri, F["version"], F["mtime"], _st["clock"].now),
        finding=fid, witness="the same URI exists in two directories, module_directory is shared: the module file written for the first directory's copy is reused for the other one" if fid else what, replay_case=hist,
    )
    return rv


def first_dir_with(w, uri):
    for d in range(len(w.dirs)):
        if (d, uri) in w.files:
            return d
    return None


def op_get(w, res, uri, hist, has=False):
    ex = _st["exceptions"]
    lk = w.lookup
    c0 = _st["constructions"][0]
    E = w.cache.get(uri)
    what = "%s(%r) at step %d" % ("has_template" if has else "get_template", uri, len(hist["ops_done"]))
    res.count("gets")
    exc = t = None
    hasr = None
    try:
        if has:
            try:
                hasr = lk.has_template(uri)
            except ex.TemplateLookupException as e:
                # has_template() answers True/False; it never passes a lookup failure on (missing and vanished files alike)
                res.violate("has-template-raises", "%s raised %s: %s instead of returning False" % (what, type(e).__name__, e), replay_case=hist)
                raise
            if hasr:
                t = lk.get_template(uri)
        else:
            t = lk.get_template(uri)
    except Exception as e:
        exc = e
    if has and hasr is True and isinstance(exc, ex.TemplateLookupException):
        res.violate("has-template-disagrees", "%s returned True, but get_template(%r) right after it raised %s: %s" % (what, uri, type(exc).__name__, exc), replay_case=hist)
    if has and exc is None and hasr is False:
        # has_template() turns a lookup failure into False: judge it as that failure
        exc = ex.TopLevelLookupException("has_template returned False") if first_dir_with(w, uri) is None and E is None else ex.TemplateLookupException("has_template returned False")
    ncon = _st["constructions"][0] - c0
    fs = w.cfg["fs_checks"]
    now = _st["clock"].now

    def expect_same():
        if exc is not None:
            res.violate("unexpected-exception", "%s raised %s: %s; expected the cached object" % (what, type(exc).__name__, exc), replay_case=hist)
            w.cache.pop(uri, None)
            return
        if t is not E["obj"]:
            res.violate("not-same-object", "%s returned a different Template object although nothing changed (constructions=%d)" % (what, ncon), witness=what, replay_case=hist)
            w.cache[uri] = dict(E, obj=t)
        elif ncon:
            res.violate("recompiled", "%s: %d Template constructions although nothing changed" % (what, ncon), replay_case=hist)
        res.count("same_object_hits")
        w.flags.add("same")
        w.touch_recency(uri)

    def expect_load(file, reason):
        """a (re)load from `file` is due"""
        F = w.files[file]
        p = os.path.abspath(w.path(*file))
        unread = p in _st["unreadable"]
        if F["kind"] == "broken" and not unread:
            if exc is None:
                # module reuse can legitimately serve an older good version only under the same-second rule
                v = judge_new_object(w, res, t, uri, file, what + " [broken file]", hist)
                w.cache[uri] = {"obj": t, "file": file, "version": v, "c": now}
                w.touch_recency(uri)
                return
            if not isinstance(exc, (ex.SyntaxException, ex.CompileException)):
                res.violate("wrong-exception", "%s on a broken file raised %s: %s" % (what, type(exc).__name__, exc), replay_case=hist)
            w.cache.pop(uri, None)
            w.flags.add("failed-compile:" + uri)
            return
        if unread and exc is not None:
            w.cache.pop(uri, None)
            res.count("unreadable_exceptions")
            return
        if exc is not None:
            res.violate("unexpected-exception", "%s raised %s: %s; expected %s of d%d%s v%d" % (what, type(exc).__name__, exc, reason, file[0], uri, F["version"]), witness=what, replay_case=hist)
            w.cache.pop(uri, None)
            return
        if E is not None and t is E["obj"]:
            res.violate("stale-object", "%s returned the old object although %s" % (what, reason), witness=what, replay_case=hist)
            return
        if not (t.module is not None and callable(t.callable_)):
            res.violate("incomplete-template", "%s returned an incomplete Template" % what, replay_case=hist)
        v = judge_new_object(w, res, t, uri, file, what, hist)
        if ncon < 1:
            res.violate("no-construction", "%s returned a new object without constructing a Template" % what, replay_case=hist)
        # bookkeeping of where the shown version was compiled
        reused = False
        if w.cfg["moddir"]:
            M = w.modules.get(uri)
            if M is not None and M["mtime"] >= F["mtime"]:
                # the module file is up to date and is loaded as it is: the template carries the time at which THAT was
                # generated (also when it was generated from this very version, e.g. before an eviction), and a later
                # touch of the source in the second of this load is a modification
                reused = True
            if M is None or M["mtime"] < F["mtime"]:
                w.modules[uri] = {"frm": (file[0], uri, F["version"]), "mtime": now}
                w.compiled_at[(file[0], uri, F["version"])] = now
        else:
            w.compiled_at[(file[0], uri, F["version"])] = now
        w.cache[uri] = {"obj": t, "file": file, "version": v, "c": now if not reused else w.compiled_at.get((file[0], uri, v), now)}
        w.touch_recency(uri)
        if "failed-compile:" + uri in w.flags:
            w.flags.discard("failed-compile:" + uri)
            res.count("failed_compiles_then_fixed")
        if reason.startswith("modified") or reason.startswith("evicted"):
            res.count("reloads_after_modification")
            w.flags.add("new")

    if E is not None:
        if not fs or E["file"] is None:
            expect_same()
        else:
            F = w.files.get(E["file"])
            if F is None:
                w.cache.pop(uri, None)
                if exc is None:
                    res.violate("vanished-file-served", "%s returned a template although its file was deleted" % what, replay_case=hist)
                elif not isinstance(exc, ex.TemplateLookupException):
                    res.violate("wrong-exception", "%s for a vanished file raised %s: %s" % (what, type(exc).__name__, exc), replay_case=hist)
                else:
                    res.count("vanished_file_exceptions")
                if has and exc is None and hasr is False:
                    pass
            elif F["mtime"] >= E["c"] + 1:
                expect_load(E["file"], "modified: mtime %d >= compiled %d + 1" % (F["mtime"], E["c"]))
            elif F["version"] == E["version"]:
                expect_same()
            else:
                # written in the same second as the compile: either is right
                res.count("same_second_ambiguous")
                if exc is None and t is E["obj"]:
                    w.touch_recency(uri)
                elif exc is None:
                    v = judge_new_object(w, res, t, uri, E["file"], what, hist)
                    if w.cfg["moddir"]:
                        # (the module file is rewritten whenever it is older than the source: keep the shadow in step)
                        M = w.modules.get(uri)
                        if M is None or M["mtime"] < F["mtime"]:
                            w.modules[uri] = {"frm": (E["file"][0], uri, F["version"]), "mtime": now}
                    w.compiled_at[(E["file"][0], uri, F["version"])] = now
                    w.cache[uri] = {"obj": t, "file": E["file"], "version": v, "c": now}
                    w.touch_recency(uri)
                else:
                    w.cache.pop(uri, None)
    else:
        d = first_dir_with(w, uri)
        if d is None:
            if has:
                if hasr is not False:
                    res.violate("has-template-wrong", "%s -> %r / %r, expected False" % (what, hasr, exc), replay_case=hist)
            elif not isinstance(exc, ex.TopLevelLookupException):
                res.violate("wrong-exception", "%s for a URI with no file gave %r" % (what, exc if exc else t), replay_case=hist)
            res.count("toplevel_misses")
        else:
            reason = "evicted/uncached: first directory containing it is d%d" % d
            if has and exc is None and hasr is False:
                res.violate("has-template-wrong", "%s returned False although d%d holds the file" % (what, d), replay_case=hist)
            else:
                expect_load((d, uri), reason)


def run_alias(case, res):
    """a file-backed Template registered under a SECOND URI with put_template: after its file is modified every
    get_template of either URI returns a template of the new text - the first call after the change reloads, the
    following ones return that very object - and a later modification is seen again"""
    clock = _st["clock"]
    ex = _st["exceptions"]
    for moddir in (False, True):
        for csize in (-1, 4):
            base = tempfile.mkdtemp(prefix="c14a-")
            try:
                root = os.path.join(base, "root")
                os.makedirs(root)
                kw = {"module_directory": os.path.join(base, "mods")} if moddir else {}
                lk = _st["TemplateLookup"](directories=[root], filesystem_checks=True, collection_size=csize, **kw)
                fp = os.path.join(root, "a.html")

                def write(v):
                    with open(fp, "w") as f:
                        f.write("A%d" % v)
                    os.utime(fp, (clock.now, clock.now))

                write(1)
                clock.advance(3)
                # an entry put under a second URI whose file vanishes before it was ever reloaded
                fb = os.path.join(root, "b.html")
                with open(fb, "w") as f:
                    f.write("B1")
                os.utime(fb, (clock.now, clock.now))
                with open(os.path.join(root, "alias2.html"), "w") as f:
                    f.write("REAL-ALIAS2-FILE")
                os.utime(os.path.join(root, "alias2.html"), (clock.now, clock.now))
                clock.advance(3)
                lk.put_template("/alias2.html", lk.get_template("/b.html"))
                first = lk.get_template("/alias2.html").render_unicode()
                os.remove(fb)
                got2 = [first]
                for rep in range(3):
                    res.evaluations += 1
                    res.count("alias_gets")
                    try:
                        got2.append(lk.get_template("/alias2.html").render_unicode())
                    except ex.TemplateLookupException:
                        got2.append("TemplateLookupException")
                    except Exception as e:
                        got2.append("%s: %s" % (type(e).__name__, e))
                if got2 != ["B1", "TemplateLookupException", "REAL-ALIAS2-FILE", "REAL-ALIAS2-FILE"]:
                    res.violate("vanished-alias-entry-kept", "b.html registered as /alias2.html by put_template (module_directory=%s, collection_size=%s), read once, then deleted, root/alias2.html "
                                "existing: get_template('/alias2.html') gave %r, expected B1, the exception once and then the file of the directory" % (moddir, csize, got2),
                                witness="put_template entry whose file vanished")
                lk.put_template("/alias.html", lk.get_template("/a.html"))
                last = {}
                for v in (1, 2, 2, 3):
                    if v != 1 and v not in last.get("seen", ()):
                        clock.advance(3)
                        write(v)
                        clock.advance(3)
                    last.setdefault("seen", set()).add(v)
                    for rep in range(3):
                        for uri in ("/alias.html", "/a.html"):
                            res.evaluations += 1
                            res.count("alias_gets")
                            what = "a.html also registered as /alias.html by put_template (module_directory=%s, collection_size=%s), file now at version %d, get_template(%r) call %d" % (
                                moddir, csize, v, uri, rep + 1)
                            try:
                                t = lk.get_template(uri)
                                out = t.render_unicode()
                            except ex.TemplateLookupException as e:
                                res.violate("alias-lost", "%s raised %s: %s" % (what, type(e).__name__, e), witness="put_template under a second URI, then a modification of the file")
                                continue
                            except Exception as e:
                                res.violate("alias-lost", "%s raised %s: %s" % (what, type(e).__name__, e))
                                continue
                            if out != "A%d" % v:
                                res.violate("stale-after-modification", "%s rendered %r, the file holds %r" % (what, out, "A%d" % v))
                            prev = last.get((uri, v))
                            if prev is not None and t is not prev:
                                res.violate("not-same-object", "%s returned a different Template object although nothing changed since the previous call" % what)
                            last[(uri, v)] = t
                # the file behind the alias vanishes: the first request says so (TemplateLookupException) and drops the
                # entry, after which the URI means what the directories hold for it
                with open(os.path.join(root, "alias.html"), "w") as f:
                    f.write("REAL-ALIAS-FILE")
                os.utime(os.path.join(root, "alias.html"), (clock.now, clock.now))
                clock.advance(3)
                os.remove(fp)
                got = []
                for rep in range(3):
                    res.evaluations += 1
                    res.count("alias_gets")
                    try:
                        got.append(lk.get_template("/alias.html").render_unicode())
                    except ex.TemplateLookupException:
                        got.append("TemplateLookupException")
                    except Exception as e:
                        got.append("%s: %s" % (type(e).__name__, e))
                if moddir and got[0] == "TemplateLookupException" and got[1] == got[2] and got[1] in ("REAL-ALIAS-FILE", "A3"):
                    # (with a module directory the module file written for /alias.html may be newer than the file that now
                    # backs the URI and be reused: the mechanism of C14/module-file-shared-across-directories, not asserted here)
                    pass
                elif got != ["TemplateLookupException", "REAL-ALIAS-FILE", "REAL-ALIAS-FILE"]:
                    res.violate("vanished-alias-entry-kept", "a.html registered as /alias.html by put_template (module_directory=%s, collection_size=%s), then deleted, root/alias.html existing: three "
                                "get_template('/alias.html') gave %r, expected the exception once and then the file of the directory" % (moddir, csize, got),
                                witness="put_template entry whose file vanished")
                res.nontrivial("alias", moddir, csize)
            finally:
                shutil.rmtree(base, ignore_errors=True)


def run_referring(case, res):
    """freshness THROUGH a referring template: main.html stays cached and unchanged while a template it includes,
    inherits from or uses as a namespace is modified (a whole second later), deleted or replaced by put_string;
    every render of main.html then shows what get_template would return for the referred-to template at that moment"""
    clock = _st["clock"]
    ex = _st["exceptions"]
    for moddir, fs in ((False, True), (True, True), (False, False)):
        for how in ("include", "inherit", "namespace", "api"):
            base = tempfile.mkdtemp(prefix="c14r-")
            try:
                root = os.path.join(base, "root")
                os.makedirs(root)
                kw = {"module_directory": os.path.join(base, "mods")} if moddir else {}
                lk = _st["TemplateLookup"](directories=[root], filesystem_checks=fs, **kw)

                def write(name, text):
                    fp = os.path.join(root, name)
                    with open(fp, "w") as f:
                        f.write(text)
                    os.utime(fp, (clock.now, clock.now))

                def part(v):
                    if how == "inherit":
                        return "P%d(${next.body()})" % v
                    if how == "namespace":
                        return '<%%def name="d()">P%d</%%def>' % v
                    return "P%d" % v

                main = {"include": 'M[<%include file="part.html"/>]', "inherit": '<%inherit file="part.html"/>M', "namespace": '<%namespace name="n" file="part.html"/>M[${n.d()}]',
                        "api": "M[<% local.include_file('part.html') %>]"}[how]
                shown = {"include": "M[P%d]", "inherit": "P%d(M)", "namespace": "M[P%d]", "api": "M[P%d]"}[how]
                write("main.html", main)
                write("part.html", part(1))
                clock.advance(3)
                steps = [("render", 1), ("modify", 2), ("render", 2), ("render", 2), ("modify", 3), ("render", 3), ("delete", None), ("render", None),
                         ("rewrite", 4), ("render", 4), ("put_string", 5), ("render", 5), ("put_template", 6), ("render", 6)]
                if not fs:
                    # without filesystem checks what is loaded stays, whatever happens on disk; entries put under
                    # the URI are served from then on
                    steps = [("render", 1), ("modify", 2), ("render", 1), ("put_string", 5), ("render", 5), ("render", 5), ("put_template", 6), ("render", 6), ("put_string", 7), ("render", 7)]
                main_obj = None
                for op, v in steps:
                    clock.advance(2)
                    res.evaluations += 1
                    what = "referring template (%s, module_directory=%s, filesystem_checks=%s), step %s %s" % (how, moddir, fs, op, v)
                    if op in ("modify", "rewrite"):
                        write("part.html", part(v))
                        continue
                    if op == "delete":
                        os.remove(os.path.join(root, "part.html"))
                        continue
                    if op == "put_string":
                        # (a put_string entry has no file: from now on it is what the URI means)
                        if os.path.exists(os.path.join(root, "part.html")):
                            os.remove(os.path.join(root, "part.html"))
                        lk.put_string("part.html", part(v))
                        continue
                    if op == "put_template":
                        lk.put_template("part.html", _st["Template"](part(v), lookup=lk, uri="part.html"))
                        continue
                    try:
                        t = lk.get_template("main.html")
                        out = t.render_unicode()
                    except ex.TemplateLookupException:
                        out = "TemplateLookupException"
                    except Exception as e:
                        out = "%s: %s" % (type(e).__name__, e)
                    res.count("referring_renders")
                    want = "TemplateLookupException" if v is None else shown % v
                    if out != want:
                        res.violate("stale-through-referring-template", "%s: main.html rendered %r, expected %r" % (what, out, want),
                                    witness="main.html unchanged and cached, part.html changed")
                    if main_obj is not None and out != "TemplateLookupException" and t is not main_obj:
                        res.violate("not-same-object", "%s: main.html itself did not change but get_template returned a new object" % what)
                    if out != "TemplateLookupException":
                        main_obj = t
                res.nontrivial("referring", how, moddir)
            finally:
                shutil.rmtree(base, ignore_errors=True)


def lru_sync(w, res, hist):
    lk = w.lookup
    n = w.cfg["csize"]
    keys = set(dict.keys(lk._collection))
    mkeys = set(w.cache)
    if n != -1:
        bound = int(1.5 * n)
        if len(keys) > bound:
            res.violate("lru-bound", "collection holds %d templates, bound is %d (collection_size=%d)" % (len(keys), bound, n), replay_case=hist)
    gone = mkeys - keys
    if gone:
        if n == -1:
            res.violate("entry-vanished", "cached URIs %r vanished from an unbounded lookup" % sorted(gone), replay_case=hist)
        else:
            kept = mkeys & keys
            for g in gone:
                for k in kept:
                    if w.recency.get(g, 0) > w.recency.get(k, 0):
                        res.violate(
                            "lru-order", "evicted %r (recency %d) although %r (recency %d) was fetched less recently and kept"
                            % (g, w.recency.get(g, 0), k, w.recency.get(k, 0)), replay_case=hist,
                        )
            res.count("lru_evictions_checked", len(gone))
            w.flags.add("evicted")
        for g in gone:
            w.cache.pop(g, None)
    for k in keys - mkeys:
        res.count("unmodelled_cached_keys")


def peek(lookup, uri):
    """read the collection without touching LRU recency"""
    item = dict.__getitem__(lookup._collection, uri)
    return getattr(item, "value", item)


def run_history(cfg, ops, res):
    w = World(cfg)
    hist = {"kind": "history", "cfg": cfg, "ops": ops, "ops_done": []}
    try:
        for op in ops:
            hist["ops_done"].append(op)
            k = op[0]
            if k == "tick":
                _st["clock"].advance(op[1])
            elif k == "write":
                if op[1] < len(w.dirs):
                    do_write(w, op[1], op[2], op[3])
            elif k == "touch":
                # the file is written again with the SAME content, at the current time: it counts as modified (one
                # reload is due), after which nothing changes any more
                f = (op[1], op[2])
                if op[1] < len(w.dirs) and f in w.files:
                    p_ = w.path(*f)
                    body_ = open(p_).read()
                    with open(p_, "w") as fh_:
                        fh_.write(body_)
                    now_ = _st["clock"].now
                    os.utime(p_, (now_, now_))
                    w.files[f] = dict(w.files[f], mtime=now_)
            elif k == "delete":
                f = (op[1], op[2])
                if f in w.files:
                    os.remove(w.path(*f))
                    del w.files[f]
            elif k == "unreadable":
                f = (op[1], op[2])
                if f in w.files:
                    p = os.path.abspath(w.path(*f))
                    (_st["unreadable"].discard if p in _st["unreadable"] else _st["unreadable"].add)(p)
            elif k == "get":
                op_get(w, res, op[1], hist)
            elif k == "has":
                op_get(w, res, op[1], hist, has=True)
            elif k == "put_string":
                w.version += 1
                w.lookup.put_string(op[1], "%s@put#%d" % (op[1], w.version))
                new = op[1] not in w.cache
                check_put(w, res, op[1], None, hist)
                w.cache[op[1]] = {"obj": peek(w.lookup, op[1]), "file": None, "version": w.version, "c": _st["clock"].now}
                if new:
                    w.touch_recency(op[1])
            elif k == "put_template":
                w.version += 1
                t = _st["Template"]("%s@put#%d" % (op[1], w.version))
                w.lookup.put_template(op[1], t)
                check_put(w, res, op[1], t, hist)
                new = op[1] not in w.cache
                w.cache[op[1]] = {"obj": t, "file": None, "version": w.version, "c": _st["clock"].now}
                if new:
                    w.touch_recency(op[1])
            res.evaluations += 1
            lru_sync(w, res, hist)
        if "same" in w.flags and "new" in w.flags:
            res.nontrivial("hist", sorted(cfg.items()), ops)
    finally:
        w.close()
        hist.pop("ops_done", None)


def check_put(w, res, uri, t, hist):
    """put_string / put_template entries are served under their URI: right after the put the collection holds the
    new template (looked at without touching recency), also when the URI was cached before"""
    res.count("puts_checked")
    try:
        cur = peek(w.lookup, uri)
        out = cur.render_unicode()
    except Exception as e:
        res.violate("put-not-served", "after put on %r the collection entry raised %s: %s" % (uri, type(e).__name__, e), replay_case=hist)
        return
    if (t is not None and cur is not t) or out != "%s@put#%d" % (uri, w.version):
        res.violate("put-not-served", "after put #%d on %r (cached before: %s) the collection serves %r" % (w.version, uri, uri in w.cache, out), replay_case=hist)


CONFIGS4 = [
    {"ndirs": 2, "fs_checks": True, "csize": -1, "moddir": False},
    {"ndirs": 2, "fs_checks": True, "csize": 1, "moddir": False},
    {"ndirs": 2, "fs_checks": False, "csize": -1, "moddir": False},
    {"ndirs": 2, "fs_checks": True, "csize": -1, "moddir": True},
]
SMALL_ALPHA = [
    ("tick", 1), ("write", 0, "/t0.html", "good"), ("write", 1, "/t0.html", "good"), ("write", 0, "/t0.html", "broken"),
    ("delete", 0, "/t0.html"), ("get", "/t0.html"), ("get", "/t1.html"), ("write", 0, "/t1.html", "good"),
    ("has", "/t0.html"), ("put_string", "/t0.html"), ("touch", 0, "/t0.html"),
]


def rand_history(r, cfg):
    n = r.randint(10, 40)
    uris = URIS[: r.choice([2, 3, 5, 8])]
    ops = []
    for _ in range(n):
        k = r.random()
        u = r.choice(uris)
        d = r.randrange(cfg["ndirs"])
        if k < 0.16:
            ops.append(("tick", r.choice([1, 1, 2, 3])))
        elif k < 0.32:
            ops.append(("write", d, u, "good" if r.random() < 0.8 else "broken"))
        elif k < 0.36:
            ops.append(("touch", d, u))
        elif k < 0.42:
            ops.append(("delete", d, u))
        elif k < 0.45:
            ops.append(("unreadable", d, u))
        elif k < 0.85:
            ops.append(("get", u if r.random() < 0.9 else "/put%d.html" % r.randrange(3)))
        elif k < 0.92:
            ops.append(("has", u))
        elif k < 0.96:
            # mostly fresh URIs, sometimes one that is (or may be) cached from a file
            ops.append(("put_string", "/put%d.html" % r.randrange(3) if r.random() < 0.7 else u))
        else:
            ops.append(("put_template", "/put%d.html" % r.randrange(3) if r.random() < 0.7 else u))
    return ops


SHARDED_GEN = True


def gen_cases(tier, seed, shard, nshards):
    if shard == 0:
        yield {"kind": "referring"}
    kmax = 4 if tier == "quick" else 5
    i = 0
    batch = []
    for k in range(1, kmax + 1):
        for ops in itertools.product(SMALL_ALPHA, repeat=k):
            if not any(o[0] in ("get", "has") for o in ops):
                continue
            if i % nshards == shard:
                batch.append([list(o) for o in ops])
                if len(batch) >= 100:
                    yield {"kind": "small", "histories": batch}
                    batch = []
            i += 1
    if batch:
        yield {"kind": "small", "histories": batch}
    n = 1500 if tier == "quick" else 40000
    per = 10
    for j in range(n // per):
        if j % nshards == shard:
            yield {"kind": "random", "seed": seed, "index": j, "n": per}


def run_case(case):
    res = common.CaseResult()
    k = case["kind"]
    if k == "referring":
        run_referring(case, res)
        run_alias(case, res)
    elif k == "small":
        for ops in case["histories"]:
            for cfg in CONFIGS4:
                run_history(cfg, [tuple(o) for o in ops], res)
        res.sample = {"kind": "small", "history": case["histories"][0]}
    elif k == "random":
        r = common.rng_for(case["seed"], "c14", case["index"])
        for _ in range(case["n"]):
            cfg = {"ndirs": r.choice([1, 2, 3]), "fs_checks": r.random() < 0.8, "csize": r.choice([-1, 1, 2, 4]), "moddir": r.random() < 0.4}
            ops = rand_history(r, cfg)
            run_history(cfg, ops, res)
            if res.sample is None:
                res.sample = {"kind": "random", "cfg": cfg, "ops": ops[:15]}
    elif k == "history":
        run_history(case["cfg"], [tuple(o) for o in case["ops"]], res)
    return res

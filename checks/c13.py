"""C13 - an exception at any point leaves the render state consistent.

Fault enumeration over generated TDoc documents (mk/tdoc.py): every node position is used as the raise
point, one at a time (as a <% raise %> block, as a raising call inside an expression, as a raising
argument expression), plus raise points inside a filter function, before/after the wrapped call in a
decorator and inside a cached def's creation function; for each raise point every enclosing handler
position is tried: a `% try` wrapped around each ancestor in turn, include_error_handler, error_handler,
the caller of render_context, and no handler.  Oracles: the reference interpreter's output (abandoned
buffers dropped, direct writes kept), the settrace render-state monitor on every template frame,
identity of the propagating exception object, a marker written through the same Context after a failed
render_context, format_exceptions output, and a second / third render of the same Template.
"""
import copy
import io

from mk import common, rendermon, tdoc
from checks import c05

PROPERTY = "C13"
LEVEL = "fault_enumeration"
EXHAUSTIVE = {"quick": True, "thorough": True}
RULE = (
    "base documents from the C05 grammar extended with filtered blocks, <%text filter>, includes, an inherited "
    "base, % for with loop.index, cached defs, a raising filter and a raising decorator; for each document "
    "EVERY node position is a raise point (enumerated) x EVERY enclosing handler position (% try at each "
    "ancestor list, include_error_handler, error_handler returning True, caller of render_context, none). "
    "distinct = (document, raise point, handler); non-trivial = the raise point was reached (model event) and, "
    "for handled cases, output continued after the handler."
)
RULE += ' added since: caller probes, raising default arguments of nested defs, BaseException subclasses raised at every point (handlers catching Exception must not see them), format_exceptions with output_encoding (bytes), defs decorated with supports_caller. error_handler and format_exceptions also for exceptions deriving from BaseException only. Template-level handlers on get_def(name) renders (5 def shapes x 3 routes). error pages for lines beyond the kept source (preprocessor, replaced file) and with a `loop` variable under enable_loop=False.'
ASSUMPTIONS = [
    "reference interpreter mk/tdoc.py; exceptions are raised by harness-provided objects so identity is checkable",
    "raise points are positions between nodes of the document; Python-level faults inside Mako's own runtime "
    "functions are not injected",
]
MIN_NONTRIVIAL = 300
REQUIRED_COUNTERS = ["raise_points_reached", "handled_by_try", "unhandled_identity_checked", "render_context_markers_checked",
                     "error_handler_checked", "format_exceptions_checked", "format_exceptions_bytes_checked", "second_renders_checked", "include_handler_checked", "frames_checked",
                     "filter_decorator_cache_raise_points"]
REQUIRED_COUNTERS += ["error_pages_beyond_source"]
REQUIRED_COUNTERS += ["get_def_handler_routes"]

_st = {}


def setup_worker():
    tdoc.Model.CCALL_ARG_CALLER = True  # follow Mako as it is here; the quirk is C05's finding, not C13's subject
    import builtins

    import mako.cache
    from mako import runtime
    from mako.cache import CacheImpl
    from mako.lookup import TemplateLookup

    class DictImpl(CacheImpl):
        store = {}

        def get_or_create(self, key, creation_function, **kw):
            k = (self.cache.id, key)
            if k not in DictImpl.store:
                DictImpl.store[k] = creation_function()
            return DictImpl.store[k]

        def invalidate(self, key, **kw):
            DictImpl.store.pop((self.cache.id, key), None)

    import sys

    mod = type(sys)("verif_c13_cache")
    mod.DictImpl = DictImpl
    sys.modules["verif_c13_cache"] = mod
    mako.cache.register_plugin("c13dict", "verif_c13_cache", "DictImpl")
    _st.update(TemplateLookup=TemplateLookup, runtime=runtime, builtins=builtins, n=0, DictImpl=DictImpl)


# ------------------------------------------------------------------ document surgery
def node_lists(doc):
    """yield (path, ancestors): path addresses a node list inside doc; ancestors = [(path, index)] of the
    enclosing node lists, outermost first, each naming the element that contains the next list"""

    def walk(lst, path, anc):
        yield path, anc
        for i, n in enumerate(lst):
            k = n[0]
            here = anc + [(path, i)]
            if k == "IF":
                yield from walk(n[2], path + [i, 2], here)
            elif k == "FOR":
                yield from walk(n[3], path + [i, 3], here)
            elif k == "TRY":
                yield from walk(n[1], path + [i, 1], here)
            elif k == "TF":
                yield from walk(n[1], path + [i, 1], here)
            elif k == "CC":
                yield from walk(n[4], path + [i, 4], here)
                for j, nd in enumerate(n[5]):
                    yield from walk(nd["body"], path + [i, 5, j, "body"], here)

    yield from walk(doc["body"], ["body"], [])

    def walkdef(d, path):
        yield from walk(d["body"], path + ["body"], [])
        for j, nd in enumerate(d.get("nested", [])):
            yield from walkdef(nd, path + ["nested", j])

    for i, d in enumerate(doc["defs"]):
        yield from walkdef(d, ["defs", i])


def get(doc, path):
    x = doc
    for p in path:
        x = x[p]
    return x


def uses_caller(nodes):
    for n in nodes:
        if n[0] in ("CB", "CN", "CP"):
            return True
        subs = (n[2],) if n[0] == "IF" else (n[3],) if n[0] == "FOR" else (n[1], n[2]) if n[0] == "TRY" else (n[1],) if n[0] == "TF" else ()
        if n[0] == "CC":
            # the body of a call (and, through closures, its nested defs) sees the `caller` of the enclosing callable
            subs = (n[4],) + tuple(nd["body"] for nd in n[5])
        for sub in subs:
            if uses_caller(sub):
                return True
    return False


def enrich(doc, r):
    """add the constructs C13 lists that the C05 grammar lacks"""
    in_call_body = {tuple(p) for p, anc in node_lists(doc) if any(get(doc, ap)[ai][0] == "CC" for ap, ai in anc)}
    lists = [p for p, _ in node_lists(doc)]
    # deepest lists first: an insertion shifts only the paths that run through the changed list
    for p in sorted(r.sample(lists, min(len(lists), 3)), key=len, reverse=True):
        lst = get(doc, p)
        k = r.random()
        pos = r.randint(0, len(lst))
        if k < 0.3:
            inner = lst[pos:pos + 2]
            if uses_caller(inner) or tuple(p) in in_call_body:
                # (also: a <%block> written in a call body is hoisted beside body() and cannot see its arguments)
                # an anonymous <%block> is a callable of its own: `caller` inside it is not the def's
                # (outside the statement) - never wrap caller.body()/caller.x() into one
                continue
            lst[pos:pos + 2] = [("TF", inner)]
        elif k < 0.5:
            lst.insert(pos, ("TX", "tx${no}t"))
        elif k < 0.8:
            lst.insert(pos, ("INC", "inc.html"))
    # caller probes: after an abandoned <%call> a def invoked later must not see the abandoned call as its caller
    for p, anc in sorted(node_lists(doc), key=lambda pa: len(pa[0]), reverse=True):  # deepest first, as above
        if any(get(doc, ap)[ai][0] in ("TF", "CC") for ap, ai in anc):
            # an anonymous block is a callable of its own (see above); inside a call's body or nested defs `caller`
            # is either the closure argument of ccall() or fetched from the context, depending on whether the
            # enclosing scope mentions `caller` too - the statement does not say which, so no probe there
            continue
        if r.random() < 0.35:
            get(doc, p).insert(r.randint(0, len(get(doc, p))), ("CP",))
    forbodies = [p for p, anc in node_lists(doc) if anc and get(doc, anc[-1][0])[anc[-1][1]][0] == "FOR" and p[-1] == 3]
    for p in sorted(forbodies, key=len, reverse=True):
        if r.random() < 0.7:
            get(doc, p).insert(r.randint(0, len(get(doc, p))), ("LI",))
    for d in doc["defs"]:
        k = r.random()
        if k < 0.2 and not d.get("takes_content"):
            d["cached"] = "key-" + d["name"]
            d["buffered"] = False
            d["filter"] = None
            d["decorator"] = False
        elif k < 0.4:
            d["filter"] = "rz"
        elif k < 0.55 and not d.get("buffered"):
            d["decorator"] = "rdeco"
    return doc


def inc_doc(r):
    return {"body": [("T", "{inc:"), ("V", "x"), ("C", "idf", [], "expr"), ("T", "}")],
            "defs": [{"name": "idf", "sig": [], "buffered": r.random() < 0.5, "filter": None, "decorator": False, "nested": [],
                      "body": [("T", "idf1"), ("V", "y"), ("T", "idf2")]}]}


def base_doc():
    return {"body": [("T", "BASE<"), ("NB",), ("T", ">"), ("V", "y"), ("T", "END")], "defs": []}


# ------------------------------------------------------------------ one scenario
def make_lookup(main_text, inc_text, base_text, **kw):
    lk = _st["TemplateLookup"](cache_impl="c13dict", **kw)
    lk.put_string("inc.html", inc_text)
    if base_text is not None:
        lk.put_string("base.html", base_text)
    lk.put_string("main.html", main_text)
    return lk


def scenario(doc, incdoc, use_base, boom_mode, res, rc, handler_desc, base_exc=False):
    """render doc (armed) under Mako and under the model; then the no-handler extras.  base_exc: the exception raised
    is a BaseException that is not an Exception (the generated handlers then read `% except BaseException`)"""
    rt = _st["runtime"]
    b = _st["builtins"]
    _st["n"] += 1
    boom = (tdoc.BoomBase if base_exc else tdoc.Boom)("boom#%d" % _st["n"])
    tdoc.EXCEPT_CLAUSE = "BaseException" if base_exc else "Exception"
    try:
        _scenario(doc, incdoc, use_base, boom_mode, res, rc, handler_desc + ("; the exception is a BaseException" if base_exc else ""), boom, base_exc)
    finally:
        tdoc.EXCEPT_CLAUSE = "Exception"


def _scenario(doc, incdoc, use_base, boom_mode, res, rc, handler_desc, boom, base_exc):
    rt = _st["runtime"]
    b = _st["builtins"]

    state = {"armed": True}

    def raiser():
        if state["armed"]:
            raise boom
        return "rf"

    ctx = dict(c05.CTX, boom=boom, armed=True, raiser=raiser)
    main_text = tdoc.emit(doc)
    if use_base:
        main_text = '<%inherit file="base.html"/>' + main_text
    inc_text = tdoc.emit(incdoc)
    base_text = tdoc.emit(base_doc()) if use_base else None
    includes = {"inc.html": incdoc}

    def model(armed, cache, include_handler=False):
        c2 = dict(ctx, armed=armed)
        if use_base:
            m = tdoc.Model(base_doc(), c2, includes, boom_mode=boom_mode, include_handler=include_handler, child=doc)
        else:
            m = tdoc.Model(doc, c2, includes, boom_mode=boom_mode, include_handler=include_handler)
        m.cache = cache
        return m

    shown = main_text[len(tdoc.MODULE_BLOCK) + (28 if use_base else 0):]
    what = "%s; raise mode %s; template\n%s" % (handler_desc, boom_mode or "node", shown)
    try:
        lk = make_lookup(main_text, inc_text, base_text)
        t = lk.get_template("main.html")
    except Exception as e:
        if isinstance(e, SyntaxError) and c05.has_bare_star_shape(doc) and ("without a default follows" in str(e) or "non-default argument follows default" in str(e)):
            res.count("skipped_c05_bare_star_finding")  # C05/bare-star-dropped: reported there, not a C13 matter
            return
        res.violate("compile-raises", "%s\nraised %s: %s" % (what, type(e).__name__, e), replay_case=rc)
        return
    _st["DictImpl"].store.clear()
    cache = {}
    b._verif_boom = (boom_mode, boom) if boom_mode else None
    try:
        m1 = model(True, cache)
        try:
            exp = m1.render()
        except tdoc.TooLarge:
            res.count("skipped_too_large")
            return
        res.evaluations += 1
        mon = rendermon.Monitor()
        try:
            with mon:
                got = ("out", t.render_unicode(**ctx))
        except (Exception, tdoc.BoomBase) as e:
            got = ("exc", e)
        res.count("frames_checked", mon.frames)
        for p in mon.problems:
            res.violate("render-state-unbalanced", "%s\n%s" % (what, p), replay_case=rc)
        run_extras = False
        reached = "raised" in m1.events
        if reached:
            res.count("raise_points_reached")
            if boom_mode or any(d.get("cached") for d in doc["defs"]):
                res.count("filter_decorator_cache_raise_points")
        if exp[0] == "out":
            if got != exp:
                res.violate("output-after-handled-exception", "%s\nrendered %r\nexpected %r" % (what, c05.short(got), exp), replay_case=rc)
                return
            if "handled" in m1.events:
                res.count("handled_by_try")
                res.nontrivial("c13", main_text, handler_desc, boom_mode)
        else:
            if got[0] != "exc":
                res.violate("exception-swallowed", "%s\nrendered %r although the exception is not handled" % (what, got[1]), replay_case=rc)
                return
            if exp[1] is boom:
                res.count("unhandled_identity_checked")
                if got[1] is not boom:
                    res.violate("exception-not-original", "%s\npropagated %r instead of the original object" % (what, got[1]), replay_case=rc)
                    return
                res.nontrivial("c13", main_text, handler_desc, boom_mode)
            elif type(got[1]) is not type(exp[1]):
                res.violate("wrong-exception", "%s\nraised %r, model raises %r" % (what, got[1], exp[1]), replay_case=rc)
                return
            run_extras = True
        # the Template can be rendered again with correct results (cache state carried along)
        m2 = model(False, cache)
        try:
            exp2 = m2.render()
        except tdoc.TooLarge:
            res.count("skipped_too_large")  # the disarmed document runs to the end and may exceed the step cap
            return
        state["armed"] = False
        b._verif_boom = None
        try:
            got2 = ("out", t.render_unicode(**dict(ctx, armed=False)))
        except (Exception, tdoc.BoomBase) as e:
            got2 = ("exc", e)
        state["armed"] = True
        b._verif_boom = (boom_mode, boom) if boom_mode else None
        res.count("second_renders_checked")
        if _short(got2) != _short(exp2):
            res.violate("second-render-differs", "%s\nsecond render (not armed) gave %r, expected %r" % (what, c05.short(got2), c05.short(exp2)), replay_case=rc)
            return
        m3 = model(True, cache)
        try:
            exp3 = m3.render()
        except tdoc.TooLarge:
            res.count("skipped_too_large")
            return
        try:
            got3 = ("out", t.render_unicode(**ctx))
        except (Exception, tdoc.BoomBase) as e:
            got3 = ("exc", e)
        if _short(got3) != _short(exp3):
            res.violate("third-render-differs", "%s\nthird render (armed again) gave %r, expected %r" % (what, c05.short(got3), c05.short(exp3)), replay_case=rc)
        if run_extras:
            # last, because these renders use other lookups whose templates share the cache id of `t`
            unhandled_extras(lk, t, ctx, m1, exp, boom, res, what, rc, main_text, inc_text, base_text, model, base_exc)
    finally:
        b._verif_boom = None
    if res.sample is None:
        res.sample = {"handler": handler_desc, "raise_mode": boom_mode or "node", "template": shown[:500], "expected": str(c05.short(exp))[:200]}


def unhandled_extras(lk, t, ctx, m1, exp1, boom, res, what, rc, main_text, inc_text, base_text, model, base_exc=False):
    """base_exc: the exception derives from BaseException only.  The Template-level handlers (error_handler,
    format_exceptions) deal with those as well - the handler is then told the exception or its class -, the
    include_error_handler does not"""
    rt = _st["runtime"]
    Impl = _st["DictImpl"]
    # (a) caller of render_context: marker through the same Context
    Impl.store.clear()
    buf = io.StringIO()
    c = rt.Context(buf, **ctx)
    try:
        t.render_context(c)
        res.violate("exception-swallowed", "%s\nrender_context returned normally" % what, replay_case=rc)
    except (Exception, tdoc.BoomBase) as e:
        if exp1[1] is boom and e is not boom:
            res.violate("exception-not-original", "%s\nrender_context propagated %r" % (what, e), replay_case=rc)
    c.write("<MARK>")
    res.count("render_context_markers_checked")
    partial = m1.partial
    exp = partial + "<MARK>"
    if buf.getvalue() != exp:
        res.violate("direct-writes-after-failure", "%s\nafter the failed render_context the outer buffer holds %r, expected %r" % (what, buf.getvalue(), exp), replay_case=rc)
    if len(c._buffer_stack) != 1 or len(c.caller_stack) != 0 or c.caller_stack.nextcaller is not None:
        res.violate("context-stacks-after-failure", "%s\nbuffer stack depth %d, caller stack depth %d, nextcaller %r" % (what, len(c._buffer_stack), len(c.caller_stack), c.caller_stack.nextcaller), replay_case=rc)
    # (b) error_handler returning True
    seen = []

    def handler(context, error):
        seen.append(error)
        context.write("<H>")
        return True

    Impl.store.clear()
    lk2 = make_lookup(main_text, inc_text, base_text, error_handler=handler)
    try:
        out = lk2.get_template("main.html").render_unicode(**ctx)
        res.count("error_handler_checked")
        if len(seen) != 1 or (exp1[1] is boom and seen[0] is not boom and not (base_exc and seen[0] is type(boom))):
            res.violate("error-handler-argument", "%s\nerror_handler saw %r" % (what, seen), replay_case=rc)
        if out != partial + "<H>":
            res.violate("error-handler-output", "%s\nwith error_handler returning True render gave %r, expected %r" % (what, out, partial + "<H>"), replay_case=rc)
    except (Exception, tdoc.BoomBase) as e:
        res.violate("error-handler-ignored", "%s\nerror_handler returned True but render raised %r" % (what, e), replay_case=rc)
    # (c) format_exceptions
    Impl.store.clear()
    lk3 = make_lookup(main_text, inc_text, base_text, format_exceptions=True)
    try:
        out = lk3.get_template("main.html").render_unicode(**ctx)
        res.count("format_exceptions_checked")
        e = exp1[1]
        if type(e).__name__ not in out or "Mako Runtime Error" not in out or not out.lstrip().startswith(("<!DOCTYPE", "<html")):
            res.violate("error-page-missing", "%s\nformat_exceptions output lacks the error page: %r" % (what, out[:200]), replay_case=rc)
    except (Exception, tdoc.BoomBase) as e:
        res.violate("error-page-missing", "%s\nformat_exceptions=True but render raised %r" % (what, e), replay_case=rc)
    # (c') the same through render() with an output encoding (bytes): the error page replaces everything written so
    # far, also when the failing callable ran on a copy of the Context (inherited templates, defs)
    Impl.store.clear()
    lk3b = make_lookup(main_text, inc_text, base_text, format_exceptions=True, output_encoding="utf-8")
    try:
        outb = lk3b.get_template("main.html").render(**ctx)
        res.count("format_exceptions_bytes_checked")
        e = exp1[1]
        page = outb.decode("utf-8", "replace") if isinstance(outb, bytes) else "<<render() returned %s>>" % type(outb).__name__
        if type(e).__name__ not in page or "Mako Runtime Error" not in page or not page.lstrip().startswith(("<!DOCTYPE", "<html")):
            res.violate("error-page-missing", "%s\nformat_exceptions output of render() (bytes) is not the error page: %r" % (what, page[:200]), replay_case=rc)
    except (Exception, tdoc.BoomBase) as e:
        res.violate("error-page-missing", "%s\nformat_exceptions=True but render() raised %r" % (what, e), replay_case=rc)
    if base_exc:
        return
    # (d) include_error_handler returning True: only differs when the raise point lies inside the include
    Impl.store.clear()
    mi = model(True, {}, include_handler=True)
    try:
        expi = mi.render()
    except tdoc.TooLarge:
        res.count("skipped_too_large")
        return
    if "include-handled" in mi.events:
        calls = []

        def ih(context, error):
            calls.append(error)
            return True

        lk4 = make_lookup(main_text, inc_text, base_text, include_error_handler=ih)
        try:
            gi = ("out", lk4.get_template("main.html").render_unicode(**ctx))
        except Exception as e:
            gi = ("exc", e)
        res.count("include_handler_checked")
        if _short(gi) != _short(expi):
            res.violate("include-error-handler", "%s\nwith include_error_handler returning True render gave %r, expected %r" % (what, c05.short(gi), c05.short(expi)), replay_case=rc)


# ------------------------------------------------------------------ enumeration
def variants(doc):
    """yield (description, mutated doc, boom_mode)"""
    lists = list(node_lists(doc))
    for path, anc in lists:
        lst = get(doc, path)
        for i in range(len(lst) + 1):
            for kind in (("RAISE", "boom"), ("RF",)):
                if kind[0] == "RF" and i % 3:
                    continue
                base = copy.deepcopy(doc)
                get(base, path).insert(i, kind)
                yield "no handler; %s at %s[%d]" % (kind[0], "/".join(map(str, path)), i), base, None
                # a % try around each ancestor element in turn, innermost first; and around the raise itself
                d2 = copy.deepcopy(doc)
                get(d2, path).insert(i, ("TRY", [kind], [("T", "<after-handler>")]))
                yield "%% try around the raise point itself at %s[%d]" % ("/".join(map(str, path)), i), d2, None
                for level, (ap, ai) in enumerate(reversed(anc)):
                    d3 = copy.deepcopy(base)
                    al = get(d3, ap)
                    al[ai] = ("TRY", [al[ai]], [("T", "<after-handler-%d>" % level)])
                    yield "%% try around ancestor %d levels up (%s[%d]); %s at %s[%d]" % (level + 1, "/".join(map(str, ap)), ai, kind[0], "/".join(map(str, path)), i), d3, None
    # raising iterable expression of a % for (the loop may use `loop`, so Mako wraps it)
    for path, anc in lists:
        lst = get(doc, path)
        for i, n in enumerate(lst):
            if n[0] == "FOR":
                d6 = copy.deepcopy(doc)
                node = list(get(d6, path)[i])
                node = node[:4] + [True]
                get(d6, path)[i] = tuple(node)
                yield "no handler; raising iterable of %% for at %s[%d]" % ("/".join(map(str, path)), i), d6, None
                d7 = copy.deepcopy(d6)
                l7 = get(d7, path)
                l7[i] = ("TRY", [l7[i]], [("T", "<after-handler>")])
                yield "%% try around a %% for whose iterable raises at %s[%d]" % ("/".join(map(str, path)), i), d7, None
                for level, (ap, ai) in enumerate(reversed(anc)):
                    d8 = copy.deepcopy(d6)
                    al = get(d8, ap)
                    al[ai] = ("TRY", [al[ai]], [("T", "<after-handler-%d>" % level)])
                    yield "%% try around ancestor %d levels up; raising iterable of %% for at %s[%d]" % (level + 1, "/".join(map(str, path)), i), d8, None
    # raising argument expression
    for path, anc in lists:
        lst = get(doc, path)
        for i, n in enumerate(lst):
            if n[0] in ("C", "CC") and n[2] and n[2][0][0] == "pos":
                d4 = copy.deepcopy(doc)
                node = list(get(d4, path)[i])
                node[2] = [("pos", ("rf",))] + list(node[2][1:])
                get(d4, path)[i] = tuple(node)
                yield "no handler; raising argument expression at %s[%d]" % ("/".join(map(str, path)), i), d4, None
                d5 = copy.deepcopy(d4)
                l5 = get(d5, path)
                l5[i] = ("TRY", [l5[i]], [("T", "<after-handler>")])
                yield "%% try around a call with a raising argument at %s[%d]" % ("/".join(map(str, path)), i), d5, None
    # a nested def whose argument default raises: evaluated in the preamble of the enclosing def, i.e. after a
    # buffered / filtered / cached def has been entered but before its body writes anything
    for di, d in enumerate(doc["defs"]):
        # (a nested def with keyword-only parameters is left alone: a default before a bare '*' is the shape of
        # the open finding C05/bare-star-dropped)
        if d.get("nested") and not any(k == "kwonly" for _, k, _ in d["nested"][0]["sig"]):
            d9 = copy.deepcopy(doc)
            nd = d9["defs"][di]["nested"][0]
            sig9 = list(nd["sig"])
            at = next((j for j, (_, k, _) in enumerate(sig9) if k in ("varargs", "kwonly", "kwargs")), len(sig9))
            sig9.insert(at, ("zz_", "rdefault", None))
            nd["sig"] = sig9
            yield "no handler; raising default of a nested def of %s" % d["name"], d9, None
            yield "%% try around the body; raising default of a nested def of %s" % d["name"], wrap_body(d9), None
    if any(d.get("filter") == "rz" for d in doc["defs"]):
        yield "no handler; raise inside the filter function", copy.deepcopy(doc), "filter"
        yield "% try around the body; raise inside the filter function", wrap_body(doc), "filter"
    if any(d.get("decorator") == "rdeco" for d in doc["defs"]):
        for mode in ("deco-before", "deco-after"):
            yield "no handler; raise in decorator (%s)" % mode, copy.deepcopy(doc), mode
            yield "%% try around the body; raise in decorator (%s)" % mode, wrap_body(doc), mode


def wrap_body(doc):
    d = copy.deepcopy(doc)
    d["body"] = [("TRY", d["body"], [("T", "<after-handler>")])]
    return d


def run_doc_case(case, res):
    r = common.rng_for(case["seed"], "c13", case["index"])
    for j in range(case["n"]):
        doc = enrich(c05.gen_doc(r, case["depth"], allow_wrong=False), r)
        incdoc = inc_doc(r)
        use_base = r.random() < 0.3
        # raise points inside the included template too
        allv = list(variants(doc))
        for vi, (desc, d2, mode) in enumerate(allv):
            scenario(d2, incdoc, use_base, mode, res, {"kind": "one", "doc": d2, "inc": incdoc, "base": use_base, "mode": mode, "desc": desc}, desc)
            if mode is None and vi % 6 == 0:
                res.count("base_exception_scenarios")
                scenario(d2, incdoc, use_base, mode, res, {"kind": "one", "doc": d2, "inc": incdoc, "base": use_base, "mode": mode, "desc": desc, "base_exc": True}, desc, base_exc=True)
        for desc, i2, mode in variants(incdoc):
            if mode or "ancestor" in desc:
                continue
            if any(n[0] == "INC" for p, _ in node_lists(doc) for n in get(doc, p)):
                scenario(copy.deepcopy(doc), i2, use_base, None, res, {"kind": "one", "doc": doc, "inc": i2, "base": use_base, "mode": None, "desc": "in include: " + desc}, "in include: " + desc)


def run_getdef_handlers(res):
    """the Template-level handlers also guard a single def rendered through get_def(name).render*():  an exception
    raised in it reaches error_handler (True = handled, what was written directly stays), becomes an error page under
    format_exceptions, and otherwise propagates as the same object"""
    import io as _io

    rt = _st["runtime"]

    class GBoom(Exception):
        pass

    shapes = {
        "plain": '<%def name="outer()">A${boom()}B</%def>',
        "nested-buffered": '<%def name="outer()">A<%def name="inner()" buffered="True">x${boom()}y</%def>[${inner()}]B</%def>',
        "call-body": '<%def name="w()">(${caller.body()})</%def><%def name="outer()">A<%call expr="w()">c${boom()}d</%call>B</%def>',
        "filtered": '<%def name="outer()" filter="trim">A${boom()}B</%def>',
        "inheriting": '<%inherit file="base_gd.html"/><%def name="outer()">A${boom()}B</%def>',
    }
    written = {"plain": "A", "nested-buffered": "A[", "call-body": "A(c", "filtered": "", "inheriting": "A"}
    for sname, text in shapes.items():
        for route in ("render_unicode", "render", "render_context"):
            err = GBoom("gd-%s" % sname)

            def boom():
                raise err

            seen = []

            def handler(context, error):
                seen.append(error)
                context.write("<H>")
                return True

            def build(**kw):
                lk = _st["TemplateLookup"](**kw)
                lk.put_string("base_gd.html", "BASE(${next.body()})")
                lk.put_string("t_gd.html", text)
                return lk.get_template("t_gd.html")

            def run(t):
                d = t.get_def("outer")
                if route == "render_unicode":
                    return d.render_unicode(boom=boom)
                if route == "render":
                    return d.render(boom=boom)
                buf = _io.StringIO()
                d.render_context(rt.Context(buf, boom=boom))
                return buf.getvalue()

            what = "get_def('outer').%s() of %r" % (route, text)
            res.evaluations += 1
            res.count("get_def_handler_routes")
            # (a) no handler: the same object propagates
            try:
                out = run(build())
                res.violate("exception-swallowed", "%s without handlers returned %r" % (what, out))
            except GBoom as e:
                if e is not err:
                    res.violate("exception-not-original", "%s propagated %r" % (what, e))
            except Exception as e:
                res.violate("exception-not-original", "%s raised %s: %s" % (what, type(e).__name__, e))
            # (b) error_handler returning True
            try:
                out = run(build(error_handler=handler))
                if seen != [err]:
                    res.violate("error-handler-argument", "%s: error_handler saw %r" % (what, seen))
                if out != written[sname] + "<H>":
                    res.violate("error-handler-output", "%s with error_handler returning True gave %r, expected %r" % (what, out, written[sname] + "<H>"))
            except Exception as e:
                res.violate("error-handler-ignored", "%s: error_handler returned True but the render raised %s: %s" % (what, type(e).__name__, e))
            # (c) format_exceptions (through render_context the page replaces the Context's own buffers, not the caller's)
            if route == "render_context":
                res.nontrivial("getdef-handlers", sname, route)
                continue
            try:
                out = run(build(format_exceptions=True))
                if isinstance(out, bytes):
                    out = out.decode("utf-8", "replace")
                if "GBoom" not in out or "Mako Runtime Error" not in out:
                    res.violate("error-page-missing", "%s with format_exceptions gave %r" % (what, out[:200]))
            except Exception as e:
                res.violate("error-page-missing", "%s: format_exceptions=True but the render raised %s: %s" % (what, type(e).__name__, e))
            res.nontrivial("getdef-handlers", sname, route)


def run_error_page_beyond_source(res):
    """format_exceptions when the failing template line lies beyond the text kept for display (a preprocessor appended
    lines; the file behind a loaded template was replaced by a shorter one): still an error page naming the exception"""
    import os
    from mako.template import Template as T

    class PBoom(Exception):
        pass

    def boom():
        raise PBoom("beyond")

    cases = {}
    cases["preprocessor appends the failing lines"] = lambda: T("line one", preprocessor=lambda t_: t_ + "\n\n\n\n${boom()}", format_exceptions=True)
    cases["preprocessor list"] = lambda: T("a\nb", preprocessor=[lambda t_: t_ + "\nc", lambda t_: t_ + "\n\n\n${boom()}"], format_exceptions=True)

    def replaced_file():
        import tempfile as _tf
        d = _tf.mkdtemp(prefix="c13bs-")
        fp = os.path.join(d, "t.html")
        with open(fp, "w") as f:
            f.write("one\ntwo\nthree\nfour\n${boom()}\n")
        t = T(filename=fp, format_exceptions=True)
        with open(fp, "w") as f:
            f.write("short\n")
        return t

    cases["file replaced by a shorter one after loading"] = replaced_file
    # (with the loop context off, `loop` is an ordinary variable: it must not stand in the error page's way)
    loop_cases = {"enable_loop=False and a `loop` variable in the render data": lambda: T("${loop}|${boom()}", enable_loop=False, format_exceptions=True)}
    for name, ctor in loop_cases.items():
        for route in ("render_unicode", "render"):
            res.evaluations += 1
            res.count("error_pages_beyond_source")
            try:
                out = getattr(ctor(), route)(boom=boom, loop="L")
                if isinstance(out, bytes):
                    out = out.decode("utf-8", "replace")
            except Exception as e:
                res.violate("error-page-missing", "format_exceptions=True, %s, %s(): raised %s: %s instead of rendering an error page" % (name, route, type(e).__name__, e))
                continue
            if "PBoom" not in out or "Mako Runtime Error" not in out:
                res.violate("error-page-missing", "format_exceptions=True, %s, %s(): output is not the error page: %r" % (name, route, out[:200]))
    for name, ctor in cases.items():
        for route in ("render_unicode", "render"):
            res.evaluations += 1
            res.count("error_pages_beyond_source")
            try:
                t = ctor()
                out = getattr(t, route)(boom=boom)
                if isinstance(out, bytes):
                    out = out.decode("utf-8", "replace")
            except Exception as e:
                res.violate("error-page-missing", "format_exceptions=True, %s, %s(): raised %s: %s instead of rendering an error page" % (name, route, type(e).__name__, e))
                continue
            if "PBoom" not in out or "Mako Runtime Error" not in out:
                res.violate("error-page-missing", "format_exceptions=True, %s, %s(): output is not the error page: %r" % (name, route, out[:200]))
        res.nontrivial("beyond-source", name)


def run_supports_caller(res):
    """a plain-Python namespace function decorated with runtime.supports_caller is a callee like any def: when an
    exception passes through it and is handled, `caller` of the code around it is what it was before"""
    import sys

    rt = _st["runtime"]
    L = _st["TemplateLookup"]
    state = {"fn_raises": False}

    class Planted(Exception):
        pass

    mod = type(sys)("verif_c13_ns")

    @rt.supports_caller
    def wrapc(context):
        context.write("W[")
        if state["fn_raises"]:
            raise Planted("in function")
        context["caller"].body()
        context.write("]")
        return ""

    mod.wrapc = wrapc
    sys.modules["verif_c13_ns"] = mod

    def raiser():
        raise Planted("in body")

    text = ('<%namespace name="m" module="verif_c13_ns"/>'
            '<%def name="outer()">O(${caller.body()}|${caller.body()})</%def>'
            "<%self:outer>\n% try:\n<%m:wrapc>in ${raiser() if not quiet else 'ok'}</%m:wrapc>\n% except Exception as e_:\ncaught\n% endtry\nB</%self:outer>"
            "${'C1' if caller else 'C0'}")
    for fn_raises, quiet, exp in ((False, False, "O(W[in caught B|W[in caught B)C0"), (True, False, "O(W[ caught B|W[ caught B)C0"), (False, True, "O(W[in ok] B|W[in ok] B)C0")):
        state["fn_raises"] = fn_raises
        res.evaluations += 1
        res.count("supports_caller_scenarios")
        lk = L()
        lk.put_string("sc.html", text)
        buf = io.StringIO()
        c = rt.Context(buf, raiser=raiser, quiet=quiet)
        mon = rendermon.Monitor()
        try:
            with mon:
                lk.get_template("sc.html").render_context(c)
            out = " ".join(buf.getvalue().split())
        except Exception as e:
            out = "%s: %s" % (type(e).__name__, e)
        what = "supports_caller function (raises itself: %s, body raises: %s)" % (fn_raises, not quiet and not fn_raises)
        if "".join(out.split()) != "".join(exp.split()):
            res.violate("caller-after-handled-exception", "%s: rendered %r, expected %r\n%s" % (what, out, exp, text))
        if len(c.caller_stack) != 0 or c.caller_stack.nextcaller is not None or len(c._buffer_stack) != 1:
            res.violate("context-stacks-after-render", "%s: caller stack depth %d, nextcaller %r, buffer stack depth %d after the render" % (
                what, len(c.caller_stack), c.caller_stack.nextcaller, len(c._buffer_stack)))
        res.nontrivial("c13-supports-caller", fn_raises, quiet)


def gen_cases(tier, seed):
    yield {"kind": "supports_caller"}
    yield {"kind": "getdef_handlers"}
    n = 36 if tier == "quick" else 1500
    per = 2
    for i in range(n // per):
        yield {"kind": "docs", "seed": seed, "index": i, "n": per, "depth": 2 if tier == "quick" else 3}


def _short(x):
    """outcome for comparison; a TypeError of a call that does not bind is compared by type (CPython words it with the
    qualified name of the generated function, the reference interpreter with inspect's)"""
    if x[0] == "exc" and isinstance(x[1], TypeError):
        return ("exc", "TypeError")
    return c05.short(x)


def run_case(case):
    res = common.CaseResult()
    if case["kind"] == "getdef_handlers":
        run_getdef_handlers(res)
        run_error_page_beyond_source(res)
        return res
    if case["kind"] == "supports_caller":
        run_supports_caller(res)
    elif case["kind"] == "docs":
        run_doc_case(case, res)
    elif case["kind"] == "one":
        scenario(case["doc"], case["inc"], case["base"], case["mode"], res, case, case["desc"], base_exc=case.get("base_exc", False))
    return res

"""C06 - inheritance chains dispatch self/next/parent correctly; blocks render once.

Reference method resolution (40 lines): chain T0 (most derived) .. Tn (base); self.X -> first Ti from 0
defining X; in Ti next = view of T(i-1), parent = view of T(i+1), local = Ti, each answering with its
own member else the nearest toward the base.  Every member prints <name>@<template>, so the output
spells the dispatch.  Named blocks render only at their position in the base-most declaring
template, with the most-derived body; anonymous blocks in place; body(**args) reach <%page args>.
"""
import itertools

from mk import common

PROPERTY = "C06"
LEVEL = "exploration"
EXHAUSTIVE = {"quick": True, "thorough": True}
RULE = (
    "chains of length 1-5; per template a subset of 3 defs, 3 named blocks (optionally nested, optionally "
    "calling parent.<block>()), 2 module attributes, <%page args>, a body calling self/next/parent/local "
    "members, attributes via .attr, next.body(**args); static or dynamic <%inherit>. (a) exhaustive: for "
    "chains of length <=3, every assignment of one def, one block and one attribute to the templates "
    "(declared/not, 2^3 each) with a fixed probing body that calls every namespace x member; (b) random chains "
    "up to length 5. Negative cases: duplicate block names, named block in def / in <%call>. distinct = by "
    "template texts; non-trivial = some member is overridden at two or more levels."
)
RULE += " added since: attribute values that are falsy (None, 0, '', False), every declaration mask per level, nested named blocks, two bases alternating on one lookup through a dynamic <%inherit>, keyword-only <%page args>. every def and named block of every chain template rendered alone through get_def(), judged with that template as the most-derived one. dynamic inherit targets computed from a module attribute through context['self'].attr."
ASSUMPTIONS = ["reference resolution in checks/c06.py (from the statement)"]
MIN_NONTRIVIAL = 200
RULE += " defs and blocks whose names contain render_."
RULE += " render() arguments reaching the <%page> signature of the base-most body under six signatures of the rendered template (none, named, **opts, keyword-only)."
REQUIRED_COUNTERS = ["chains_rendered", "dispatch_calls_model", "blocks_rendered_model", "negative_cases", "page_args_received", "missing_member_errors_matched", "get_def_renders", "render_args_cases"]

_st = {}
# (member names that themselves hold the prefix of the generated callables, "render_")
DEFS = ["d0", "render_d1", "pre_render_d2"]
BLOCKS = ["b0", "render_b1", "b2_render_"]
ATTRS = ["a0", "a1"]


def setup_worker():
    from mako import exceptions
    from mako.lookup import TemplateLookup

    _st.update(TemplateLookup=TemplateLookup, exceptions=exceptions)


# A template spec: {"defs": {name: [items]}, "blocks": {name: ...}, "attrs": [names], "page": [argnames], "body": [items], "dynamic": bool}
# items: ("t", text) ("call", ns, member) ("attr", ns, name) ("block", name) ("anon", [items]) ("nextbody", {arg: val}) ("arg", name)
# blocks[name] = {"items": [...], "nested": name|None}


def attr_value(spec, a, i):
    """the value template i gives its module attribute a: normally a string naming its origin; a template may
    also declare it with a falsy value or None, which is still that template's declaration"""
    kind = spec.get("attrvals", {}).get(a, "str")
    return {"str": "%s@T%d" % (a, i), "none": None, "zero": 0, "empty": "", "false": False}[kind]


def emit_items(items, spec, out):
    for it in items:
        k = it[0]
        if k == "t":
            out.append(it[1])
        elif k == "call":
            out.append("${%s.%s()}" % (it[1], it[2]))
        elif k == "attr":
            out.append("${repr(%s.attr.%s)}" % (it[1], it[2]))
        elif k == "block":
            b = spec["blocks"][it[1]]
            out.append('<%%block name="%s">' % it[1])
            emit_items(b["items"], spec, out)
            out.append("</%block>")
        elif k == "anon":
            out.append("<%block>")
            emit_items(it[1], spec, out)
            out.append("</%block>")
        elif k == "nextbody":
            out.append("${next.body(%s)}" % ", ".join("%s=%r" % kv for kv in sorted(it[1].items())))
        elif k == "arg":
            out.append("${%s}" % it[1])


def emit(spec, i, n):
    out = []
    if i < n:
        if spec.get("dynamic") == "attr":
            # the target is a module attribute of this template, read through the most-derived namespace
            out.append("<%%! layout%d_ = 't%d.html' %%>" % (i, i + 1))
            out.append('<%%inherit file="${context[\'self\'].attr.layout%d_}"/>' % i)
        elif spec.get("dynamic"):
            out.append('<%%inherit file="${context[\'target%d\']}"/>' % i)
        else:
            out.append('<%%inherit file="t%d.html"/>' % (i + 1))
    if spec["page"]:
        sig = ", ".join(spec["page"])
        if spec.get("page_kwonly") and len(spec["page"]) == 2:
            sig = "%s, *, %s" % tuple(spec["page"])   # the second argument is keyword-only: body() passes it by keyword anyway
        out.append('<%%page args="%s"/>' % sig)
    if spec["attrs"]:
        out.append("<%%!\n%s\n%%>" % "\n".join("%s = %r" % (a, attr_value(spec, a, i)) for a in spec["attrs"]))
    emit_items(spec["body"], spec, out)
    for name, items in spec["defs"].items():
        out.append('<%%def name="%s()">' % name)
        emit_items(items, spec, out)
        out.append("</%def>")
    return "".join(out)


class Missing(Exception):
    pass


class Model:
    def __init__(self, chain, offset=0):
        self.T = chain
        self.offset = offset  # index of chain[0] in the chain the texts were emitted for
        self.n = len(chain) - 1
        self.out = []
        self.calls = 0
        self.blocks = 0
        self.page_args = 0

    def has(self, j, member):
        t = self.T[j]
        return member in t["defs"] or member in t["blocks"]

    def resolve(self, ns, i, member, attr=False):
        if ns == "self":
            rng = range(0, self.n + 1)
        elif ns == "next":
            if i == 0:
                raise Missing("next")
            rng = range(i - 1, self.n + 1)
        elif ns == "parent":
            if i == self.n:
                raise Missing("parent")
            rng = range(i + 1, self.n + 1)
        else:
            rng = range(i, self.n + 1)
        for j in rng:
            if (member in self.T[j]["attrs"]) if attr else self.has(j, member):
                return j
        raise Missing(member)

    def run(self, items, i, args):
        for it in items:
            k = it[0]
            if k == "t":
                self.out.append(it[1])
            elif k == "call":
                j = self.resolve(it[1], i, it[2])
                self.calls += 1
                t = self.T[j]
                if it[2] in t["defs"]:
                    self.run(t["defs"][it[2]], j, {})
                else:
                    self.run(t["blocks"][it[2]]["items"], j, {})
            elif k == "attr":
                j = self.resolve(it[1], i, it[2], attr=True)
                self.calls += 1
                self.out.append(repr(attr_value(self.T[j], it[2], j + self.offset)))
            elif k == "block":
                name = it[1]
                if any(name in self.T[j]["blocks"] for j in range(i + 1, self.n + 1)):
                    continue  # a template nearer the base declares it: rendered there
                j = next(j for j in range(0, self.n + 1) if name in self.T[j]["blocks"])
                self.blocks += 1
                self.run(self.T[j]["blocks"][name]["items"], j, {})
            elif k == "anon":
                self.run(it[1], i, args)
            elif k == "nextbody":
                if i == 0:
                    raise Missing("next")
                tgt = self.T[i - 1]
                passed = dict(it[1])
                a2 = {}
                for a in tgt["page"]:
                    if a not in passed:
                        raise TypeError("missing page arg")
                    a2[a] = passed[a]
                    self.page_args += 1
                self.run(tgt["body"], i - 1, a2)
            elif k == "arg":
                self.out.append(str(args[it[1]]))

    def render(self):
        try:
            self.run(self.T[self.n]["body"], self.n, {})
        except Missing as e:
            return ("exc", "AttributeError")
        except TypeError:
            return ("exc", "TypeError")
        return ("out", "".join(self.out))


def render_chain(chain, res, rc, note=None):
    L = _st["TemplateLookup"]
    n = len(chain) - 1
    lk = L()
    texts = []
    for i, spec in enumerate(chain):
        text = emit(spec, i, n)
        texts.append(text)
    # a dynamic <%inherit> whose expression yields None means "no parent": the chain ends at that template
    cut = next((i for i, sp in enumerate(chain) if sp.get("dynamic") and sp.get("target_none") and i < n), None)
    eff = chain if cut is None else chain[: cut + 1]
    m = Model(eff)
    exp = m.render()
    res.evaluations += 1
    what = "chain (most derived first):\n" + "\n".join("  t%d.html: %s" % (i, t) for i, t in enumerate(texts))
    try:
        for i, text in enumerate(texts):
            lk.put_string("t%d.html" % i, text)
        ctx = {"target%d" % i: (None if chain[i].get("target_none") else "t%d.html" % (i + 1)) for i in range(n)}
        got = ("out", lk.get_template("t0.html").render_unicode(**ctx))
    except (AttributeError, TypeError, NameError) as e:
        got = ("exc", "AttributeError" if isinstance(e, (AttributeError, NameError)) else "TypeError", str(e))
    except Exception as e:
        got = ("exc", type(e).__name__, str(e))
    res.count("chains_rendered")
    res.count("dispatch_calls_model", m.calls)
    res.count("blocks_rendered_model", m.blocks)
    res.count("page_args_received", m.page_args)
    if got[:2] != exp[:2]:
        res.violate("dispatch", "%s\nrendered %r\nexpected %r" % (what, got, exp), replay_case=rc)
    elif exp[0] == "exc":
        res.count("missing_member_errors_matched")
    # every def and named block of every template of the chain, rendered on its own through get_def(): the template
    # it is taken from is then the most-derived one (self/local are that template, parent its parent, no next)
    if got[0] == "out" and exp[0] == "out":
        for i in range(len(eff)):
            for name in list(eff[i]["defs"]) + list(eff[i]["blocks"]):
                m2 = Model(eff[i:], offset=i)
                items = eff[i]["defs"][name] if name in eff[i]["defs"] else eff[i]["blocks"][name]["items"]
                try:
                    m2.run(items, 0, {})
                    exp2 = ("out", "".join(m2.out))
                except Missing:
                    exp2 = ("exc", "AttributeError")
                except (TypeError, KeyError):
                    continue  # (needs page arguments that get_def() does not supply: not asserted)
                try:
                    got2 = ("out", lk.get_template("t%d.html" % i).get_def(name).render_unicode(**ctx))
                except (AttributeError, NameError) as e:
                    got2 = ("exc", "AttributeError", str(e))
                except Exception as e:
                    got2 = ("exc", type(e).__name__, str(e))
                res.evaluations += 1
                res.count("get_def_renders")
                if got2[:2] != exp2:
                    res.violate("get-def-dispatch", "%s\nt%d.html get_def(%r).render_unicode() gave %r\nexpected %r (t%d.html as the most-derived template)"
                                % (what, i, name, got2, exp2, i), replay_case=rc)
    over = 0
    for name in DEFS + BLOCKS:
        if sum(1 for t in chain if name in t["defs"] or name in t["blocks"]) >= 2:
            over += 1
    if over and exp[0] == "out":
        res.nontrivial("c06", texts)
    if res.sample is None:
        res.sample = {"templates": texts, "expected": exp}


def render_two_bases(r, res):
    """the SAME derived templates (one lookup, the same Template objects) rendered alternately over two different
    base-most templates chosen by a dynamic <%inherit>: each render dispatches as the static chain would; nothing learnt
    about one ancestor chain may carry over to the next render"""
    import copy

    L = _st["TemplateLookup"]
    for _ in range(50):
        chain = rand_chain(r)
        if len(chain) >= 2 and not any(sp.get("target_none") for sp in chain):
            break
    else:
        return
    n = len(chain) - 1
    chain[n - 1]["dynamic"] = True
    tgt = chain[n - 1]
    baseB = {"defs": {d: [("t", "%s@TB[]" % d)] for d in DEFS if r.random() < 0.5},
             "blocks": {b: {"items": [("t", "%s@TB{}" % b)]} for b in BLOCKS if r.random() < 0.5},
             "attrs": [a for a in ATTRS if r.random() < 0.5], "page": [], "dynamic": False}
    body = [("t", "BODYB(")]
    for b in baseB["blocks"]:
        body.append(("block", b))
    body.append(("nextbody", {a: "%s-from-TB" % a for a in tgt["page"]}))
    body.append(("t", ")"))
    baseB["body"] = body
    chains = {"t%d.html" % n: chain, "tB.html": chain[:-1] + [baseB]}
    lk = L()
    texts = {}
    for i, spec in enumerate(chain):
        texts["t%d.html" % i] = emit(spec, i, n)
    texts["tB.html"] = emit(baseB, n, n)
    shown = "\n".join("  %s: %s" % kv for kv in sorted(texts.items()))
    try:
        for name, text in texts.items():
            lk.put_string(name, text)
    except Exception as e:
        res.violate("two-bases-compile", "templates\n%s\nraised %s: %s" % (shown, type(e).__name__, e))
        return
    for step, base in enumerate(r.choice([["tB.html", "t%d.html" % n, "tB.html"], ["t%d.html" % n, "tB.html", "t%d.html" % n, "tB.html"]])):
        res.evaluations += 1
        res.count("alternating_base_renders")
        exp = Model(copy.deepcopy(chains[base])).render()
        ctx = {"target%d" % i: "t%d.html" % (i + 1) for i in range(n)}
        ctx["target%d" % (n - 1)] = base
        try:
            got = ("out", lk.get_template("t0.html").render_unicode(**ctx))
        except (AttributeError, TypeError, NameError) as e:
            got = ("exc", "AttributeError" if isinstance(e, (AttributeError, NameError)) else "TypeError", str(e))
        except Exception as e:
            got = ("exc", type(e).__name__, str(e))
        if got[:2] != exp[:2]:
            res.violate("dispatch-after-base-change", "one lookup, render %d over base %s (bases alternate through a dynamic <%%inherit>):\n%s\nrendered %r\nexpected %r" % (
                step + 1, base, shown, got, exp), witness="alternating bases")
            return
    res.nontrivial("c06-two-bases", sorted(texts.items()))


# ------------------------------------------------------------------ (a) exhaustive probing chains
def probe_chain(n, dmask, bmask, amask):
    chain = []
    for i in range(n + 1):
        spec = {"defs": {}, "blocks": {}, "attrs": [], "page": [], "body": [], "dynamic": False}
        if dmask[i]:
            spec["defs"]["d0"] = [("t", "d0@T%d" % i)]
        if amask[i]:
            spec["attrs"].append("a0")
            if amask[i] == 2:
                spec["attrvals"] = {"a0": "none"}
            elif amask[i] == 3:
                spec["attrvals"] = {"a0": "zero"}
        body = [("t", "B%d(" % i)]
        nss = ["self", "local"] + (["next"] if i > 0 else []) + (["parent"] if i < n else [])
        for ns in nss:
            body += [("t", "%s:" % ns[0])]
            # only calls that resolve; the others are covered by the random part
            body.append(("probe", ns))
        if bmask[i]:
            spec["blocks"]["b0"] = {"items": [("t", "b0@T%d" % i)] + ([("call", "parent", "b0")] if any(bmask[i + 1:]) else [])}
            body.append(("block", "b0"))
        if i > 0:
            body.append(("nextbody", {}))
        body.append(("t", ")"))
        spec["body"] = body
        chain.append(spec)
    # turn probes into calls where the model says they resolve
    m = Model(chain)
    for i, spec in enumerate(chain):
        newbody = []
        for it in spec["body"]:
            if it[0] != "probe":
                newbody.append(it)
                continue
            for member, attr in (("d0", False), ("b0", False), ("a0", True)):
                try:
                    m.resolve(it[1], i, member, attr)
                except Missing:
                    continue
                newbody.append(("attr", it[1], member) if attr else ("call", it[1], member))
                newbody.append(("t", ","))
        spec["body"] = newbody
    return chain


# ------------------------------------------------------------------ (b) random chains
def rand_chain(r):
    n = r.randint(0, 4)
    chain = []
    for i in range(n + 1):
        spec = {"defs": {}, "blocks": {}, "attrs": [a for a in ATTRS if r.random() < 0.5], "page": [], "body": [], "dynamic": i < n and r.random() < 0.25}
        spec["attrvals"] = {a: r.choice(["none", "zero", "empty", "false"]) for a in spec["attrs"] if r.random() < 0.3}
        for d in DEFS:
            if r.random() < 0.5:
                spec["defs"][d] = None
        for b in BLOCKS:
            if r.random() < 0.5:
                spec["blocks"][b] = None
        if i < n and r.random() < 0.4:
            spec["page"] = ["pa"] if r.random() < 0.6 else ["pa", "pb"]
            spec["page_kwonly"] = r.random() < 0.5
        chain.append(spec)
    for i, spec in enumerate(chain):
        spec["target_none"] = bool(spec["dynamic"] and r.random() < 0.3)
        if spec["dynamic"] and not spec["target_none"] and r.random() < 0.4:
            spec["dynamic"] = "attr"
    cut = next((i for i, sp in enumerate(chain) if sp["target_none"]), None)
    full = chain
    if cut is not None:
        chain = chain[: cut + 1]   # members are resolved against what is really reachable
        n = cut
        chain[cut]["page"] = []    # it is the base-most template now: nobody passes it body() arguments
    # fill contents once every template's member set is known
    m = Model(chain)

    def ref(i, allow_invalid=True):
        for _ in range(6):
            ns = r.choice(["self", "self", "next", "parent", "local"])
            attr = r.random() < 0.25
            member = r.choice(ATTRS if attr else DEFS + BLOCKS)
            try:
                m.resolve(ns, i, member, attr)
            except Missing:
                if allow_invalid and r.random() < 0.02:
                    return ("attr", ns, member) if attr else ("call", ns, member)
                continue
            return ("attr", ns, member) if attr else ("call", ns, member)
        return ("t", "-")

    for i, spec in enumerate(chain):
        for d in list(spec["defs"]):
            items = [("t", "%s@T%d[" % (d, i))]
            if r.random() < 0.4:
                x = ref(i, False)
                # a def must not call itself through self (endless recursion)
                if x[0] == "call" and x[2] in DEFS + BLOCKS:
                    x = ("attr", x[1], "a0") if any("a0" in t["attrs"] for t in chain[i:]) and x[1] in ("self", "local") else ("t", "~")
                items.append(x)
            items.append(("t", "]"))
            spec["defs"][d] = items
        nested_here = set()
        names = sorted(spec["blocks"])
        for bi, b in enumerate(names):
            items = [("t", "%s@T%d{" % (b, i))]
            if any(b in chain[j]["blocks"] for j in range(i + 1, n + 1)) and r.random() < 0.5:
                items.append(("call", "parent", b))
            # a named block written inside another named block of the same template (each name once per template)
            inner = [c for c in names[bi + 1:] if c not in nested_here]
            if inner and r.random() < 0.4:
                c = r.choice(inner)
                nested_here.add(c)
                items.append(("block", c))
            items.append(("t", "}"))
            spec["blocks"][b] = {"items": items}
        body = [("t", "BODY%d(" % i)]
        for a in spec["page"]:
            body += [("arg", a), ("t", ";")]
        placed = []
        for _ in range(r.randint(1, 5)):
            k = r.random()
            if k < 0.45:
                x = ref(i)
                # calling a block by name re-renders it (allowed), calling defs that only print is safe
                body.append(x)
            elif k < 0.75:
                cand = [b for b in spec["blocks"] if b not in placed and b not in nested_here]
                if cand:
                    b = r.choice(cand)
                    placed.append(b)
                    body.append(("block", b))
            elif k < 0.85:
                body.append(("anon", [("t", "anon%d<" % i), ref(i, False), ("t", ">")]))
            else:
                body.append(("t", "t%d" % r.randrange(100)))
        for b in spec["blocks"]:
            if b not in placed and b not in nested_here:
                body.append(("block", b))
        if i > 0 and r.random() < 0.9:
            tgt = chain[i - 1]
            body.append(("nextbody", {a: "%s-from-T%d" % (a, i) for a in tgt["page"]}))
        body.append(("t", ")"))
        spec["body"] = body
    for spec in full[len(chain):]:
        # never reached; still has to be a valid template
        spec["defs"] = {d: [("t", "unreached")] for d in spec["defs"]}
        spec["blocks"] = {}
        spec["body"] = [("t", "UNREACHED")]
    return full


def run_negative(res):
    L = _st["TemplateLookup"]
    ex = _st["exceptions"]
    cases = [
        ('<%block name="x">a</%block><%block name="x">b</%block>', "duplicate block name"),
        ('<%block name="x">a<%block name="x">b</%block></%block>', "duplicate nested block name"),
        ('<%def name="d()"><%block name="x">a</%block></%def>', "named block inside a def"),
        ('<%def name="w()">${caller.body()}</%def><%call expr="w()"><%block name="x">a</%block></%call>', "named block inside <%call>"),
        ('<%def name="w()">${caller.body()}</%def><%self:w><%block name="x">a</%block></%self:w>', "named block inside <%self:w>"),
        ('<%block name="a"><%def name="d()"><%block name="y">z</%block></%def></%block>', "named block inside a def inside a block"),
        ('<%block name="x">a</%block><%def name="x()">b</%def>', "block and def of one name"),
    ]
    for text, why in cases:
        res.evaluations += 1
        res.count("negative_cases")
        try:
            lk = L()
            lk.put_string("n.html", text)
            res.violate("invalid-template-accepted", "%s: template %r compiled" % (why, text), witness=why)
        except ex.CompileException:
            pass
        except Exception as e:
            res.violate("invalid-template-wrong-exception", "%s: template %r raised %s: %s" % (why, text, type(e).__name__, e))
        res.nontrivial("neg", text)
    ok = [
        ('<%block name="x">a</%block><%block name="y">b</%block>', "ab"),
        ("<%block>a</%block>\n<%block>b</%block>", "a\nb"),
        ('<%block name="x">a<%block name="y">b</%block></%block>', "ab"),
    ]
    for text, exp in ok:
        res.evaluations += 1
        try:
            lk = L()
            lk.put_string("p.html", text)
            out = lk.get_template("p.html").render_unicode()
        except Exception as e:
            out = "%s: %s" % (type(e).__name__, e)
        if out != exp:
            res.violate("valid-blocks-rejected", "template %r gave %r, expected %r" % (text, out, exp))


# ------------------------------------------------------------------ (d) render()'s own arguments and the body that runs first
LEAF_PAGES = ["", '<%page args="x=1"/>', '<%page args="x=1, **opts"/>', '<%page args="**opts"/>', '<%page args="lang=\'leaf-default\'"/>', '<%page args="*, x=1, **opts"/>']


def run_render_args(res):
    """the body that render() runs is the base-most one, and it is that body's <%page> signature which receives the
    arguments given to render() - whatever signature the rendered (most-derived) template declares for its own body"""
    L = _st["TemplateLookup"]
    for depth in (1, 2):
        for dynamic in (False, True):
            for lp in LEAF_PAGES:
                lk = L()
                lk.put_string("/base.html", '<%page args="lang=\'en\', width=80"/>B[${lang}|${width}|${sorted(pageargs)}](${next.body()})')
                inh = '<%inherit file="${\'/\' + context[\'parentname\']}"/>' if dynamic else '<%%inherit file="/%s"/>'
                if depth == 2:
                    lk.put_string("/mid.html", (inh if dynamic else inh % "base.html") + "M(${next.body()})")
                parent = "mid.html" if depth == 2 else "base.html"
                lk.put_string("/leaf.html", lp + ('<%inherit file="/' + parent + '"/>') + "LEAF")
                for data in ({}, {"lang": "fr"}, {"lang": "de", "width": 40}, {"width": 40, "extra": 1}, {"x": 5, "lang": "fr", "extra": 2}):
                    res.evaluations += 1
                    res.count("render_args_cases")
                    kw = dict(data)
                    if dynamic:
                        kw["parentname"] = "base.html"
                    extra = sorted(k for k in kw if k not in ("lang", "width"))
                    exp = "B[%s|%s|%r](%sLEAF%s)" % (kw.get("lang", "en"), kw.get("width", 80), extra, "M(" if depth == 2 else "", ")" if depth == 2 else "")
                    what = "leaf %r inheriting %s (depth %d), render(%s)" % (lp, "through an expression" if dynamic and depth == 2 else "statically", depth, ", ".join("%s=%r" % i for i in sorted(kw.items())))
                    try:
                        got = lk.get_template("/leaf.html").render_unicode(**kw)
                    except Exception as e:
                        got = "%s: %s" % (type(e).__name__, e)
                    if got != exp:
                        res.violate("render-arguments-not-received", "%s rendered %r, expected %r" % (what, got, exp), witness="render() arguments and the base-most body's <%page> signature")
                res.nontrivial("render-args", depth, dynamic, lp)


def gen_cases(tier, seed):
    yield {"kind": "negative"}
    batch = []
    for n in (0, 1, 2):
        for dmask in itertools.product((0, 1), repeat=n + 1):
            for bmask in itertools.product((0, 1), repeat=n + 1):
                for amask in itertools.product((0, 1, 2) if tier == "quick" else (0, 1, 2, 3), repeat=n + 1):
                    batch.append([n, dmask, bmask, amask])
                    if len(batch) >= 40:
                        yield {"kind": "probe", "items": batch}
                        batch = []
    if batch:
        yield {"kind": "probe", "items": batch}
    nr = 8000 if tier == "quick" else 60000
    per = 100
    for i in range(nr // per):
        yield {"kind": "random", "seed": seed, "index": i, "n": per}


def run_case(case):
    res = common.CaseResult()
    k = case["kind"]
    if k == "negative":
        run_negative(res)
        run_render_args(res)
    elif k == "probe":
        for n, dm, bm, am in case["items"]:
            chain = probe_chain(n, dm, bm, am)
            render_chain(chain, res, {"kind": "chain", "chain": chain})
    elif k == "random":
        r = common.rng_for(case["seed"], "c06", case["index"])
        for _ in range(case["n"]):
            chain = rand_chain(r)
            render_chain(chain, res, {"kind": "chain", "chain": chain})
        for _ in range(max(1, case["n"] // 10)):
            render_two_bases(r, res)
    elif k == "chain":
        render_chain(case["chain"], res, case)
    return res

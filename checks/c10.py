"""C10 - escaping filters neutralise markup for every input and are invertible.

Oracle: reference decoders written here (named entities via html.entities.name2codepoint, numeric
references via int(); NOT html.unescape, which remaps &#x80;-&#x9F;), urllib's unquote_plus, and
str.strip.  Workload: every code point (exhaustive, disjoint ranges), every string of length <= 3
over a markup alphabet, random mixtures; the same strings through real templates.
"""
import itertools
import re
import urllib.parse
from html.entities import codepoint2name, name2codepoint

from mk import common

PROPERTY = "C10"
LEVEL = "exploration"
EXHAUSTIVE = {"quick": True, "thorough": True}
RULE = (
    "cases: (1) every code point U+0000..U+10FFFF minus surrogates, alone and embedded as 'a<c>&', "
    "enumerated exhaustively in disjoint ranges; (2) every string of length <=3 over the 16-symbol "
    "alphabet & < > \" ' ; # x 0 a l t g space e-acute euro; (3) random strings mixing markup, "
    "entity fragments and arbitrary Unicode; (4) the same strings through Template filters and "
    "output_encoding with encoding_errors=htmlentityreplace. Each string goes through h, x, u, "
    "entity(+unescape), trim, decode.<enc>, and .encode(cs,'htmlentityreplace') for 5 charsets. "
    "non-trivial = a string that at least one filter/handler had to change; distinct = by string."
)
RULE += ' added since: decoders held across other decode.<enc> look-ups, and aliased in a module block. thirteen spellings of decode.<enc> (digits, underscores, upper case) as expression filter, def filter, default_filters and buffer_filters. h(Markup(s)) ahead of h(s).'
ASSUMPTIONS = [
    "reference decoders: html.entities tables, int() for numeric references, urllib.parse.unquote_plus",
    "exhaustive for single code points and for length<=3 over the stated alphabet; random beyond",
]
MIN_NONTRIVIAL = 1000
REQUIRED_COUNTERS = ["h_checked", "u_checked", "entity_checked", "errhandler_checked", "template_renders"]

CHARSETS = ["ascii", "latin-1", "cp1251", "shift_jis", "utf-8"]
ALPHA = ["&", "<", ">", '"', "'", ";", "#", "x", "0", "a", "l", "t", "g", " ", "é", "€"]
EMITTED = ("&amp;", "&lt;", "&gt;", "&#34;", "&#39;")
_ref = re.compile(r"&(?:#x([0-9A-Fa-f]+)|#([0-9]+)|([A-Za-z][A-Za-z0-9]*));")
URLSAFE = set("ABCDEFGHIJKLMNOPQRSTUVWXYZabcdefghijklmnopqrstuvwxyz0123456789_.~+%-")

F = None
_templates = {}


def setup_worker():
    global F
    from mako import filters
    from mako.template import Template

    F = filters
    for name in ("h", "x", "u", "entity", "trim"):
        _templates[name] = Template("${v | n,%s}" % name)
    for cs in CHARSETS:
        _templates["enc:" + cs] = Template(
            "${v | n}", output_encoding=cs, encoding_errors="htmlentityreplace"
        )


def ref_decode(t):
    """decode exactly the five entities the filter emits"""
    out = []
    i = 0
    while i < len(t):
        if t[i] == "&":
            for e, c in zip(EMITTED, "&<>\"'"):
                if t.startswith(e, i):
                    out.append(c)
                    i += len(e)
                    break
            else:
                return None
        else:
            out.append(t[i])
            i += 1
    return "".join(out)


def encodable(c, cs):
    try:
        c.encode(cs)
        return True
    except UnicodeEncodeError:
        return False


def check_errhandler_text(s, t, cs):
    """t = output decoded with cs; every encodable char must stand as itself, every other as one
    reference that decodes back to it."""
    i = 0
    for c in s:
        if encodable(c, cs):
            # what the codec itself makes of the character (shift_jis maps U+00A5 to 0x5C, which
            # reads back as a backslash: the codec's doing, the handler is never consulted)
            own = c.encode(cs).decode(cs)
            if not t.startswith(own, i):
                return "char %r expected as %r at %d of %r" % (c, own, i, t)
            i += len(own)
        else:
            m = _ref.match(t, i)
            if not m:
                return "no reference for %r at %d of %r" % (c, i, t)
            hx, dc, nm = m.groups()
            cp = int(hx, 16) if hx else int(dc) if dc else name2codepoint.get(nm)
            if cp != ord(c):
                return "reference %r decodes to %r, not %r" % (m.group(), cp, c)
            i = m.end()
    if i != len(t):
        return "trailing output %r" % t[i:]
    return None


def _st_markup(s):
    import markupsafe
    return markupsafe.Markup(s)


def check_string(s, res, via_template=False):
    changed = False
    # h and x
    for name, fn in (("h", F.html_escape), ("x", F.xml_escape)):
        try:
            if name == "h" and len(s) <= 200:
                # h passes trusted Markup through unchanged; that must not change what it does to the equal plain str
                mk = fn(_st_markup(s))
                if str(mk) != s:
                    res.violate("markup-not-passed-through", "h(Markup(%r)) = %r" % (s, str(mk)))
            o = str(fn(s))
        except Exception as e:
            res.violate("filter-raises", "%s(%r) raised %r" % (name, s, e), witness=repr(s))
            continue
        res.count("h_checked")
        if any(ch in o for ch in "<>\"'"):
            res.violate("markup-survives", "%s(%r) = %r still contains markup" % (name, s, o))
        d = ref_decode(o)
        if d is None:
            res.violate("bare-ampersand", "%s(%r) = %r has an & that starts no emitted entity" % (name, s, o))
        elif d != s:
            res.violate("not-invertible", "%s(%r) = %r decodes to %r" % (name, s, o, d))
        changed |= o != s
    # u
    try:
        o = F.url_escape(s)
        res.count("u_checked")
        bad = set(o) - URLSAFE
        if bad:
            res.violate("url-unsafe", "u(%r) = %r contains %r" % (s, o, sorted(bad)))
        back = urllib.parse.unquote_plus(o, encoding="utf-8", errors="strict")
        if back != s:
            res.violate("url-not-invertible", "u(%r) = %r decodes to %r" % (s, o, back))
        changed |= o != s
    except Exception as e:
        res.violate("filter-raises", "u(%r) raised %r" % (s, e))
    # entity
    try:
        o = F.html_entities_escape(s)
        res.count("entity_checked")
        exp = "".join("&%s;" % codepoint2name[ord(c)] if ord(c) in codepoint2name else c for c in s)
        if o != exp:
            res.violate("entity-wrong", "entity(%r) = %r, expected %r" % (s, o, exp))
        back = F.html_entities_unescape(o)
        if back != s:
            res.violate("entity-not-invertible", "unescape(entity(%r)) = %r" % (s, back))
        changed |= o != s
    except Exception as e:
        res.violate("filter-raises", "entity(%r) raised %r" % (s, e))
    # trim
    try:
        o = F.trim(s)
        if o != s.strip() or o not in s:
            res.violate("trim-wrong", "trim(%r) = %r" % (s, o))
        changed |= o != s
    except Exception as e:
        res.violate("filter-raises", "trim(%r) raised %r" % (s, e))
    # decode
    try:
        d = F.decode.utf8(s)
        if type(d) is not str or d != s:
            res.violate("decode-wrong", "decode.utf8(%r) = %r" % (s, d))
        b = s.encode("utf-8")
        d = F.decode.utf8(b)
        if type(d) is not str or d != s:
            res.violate("decode-wrong", "decode.utf8(%r) = %r" % (b, d))
    except Exception as e:
        res.violate("filter-raises", "decode.utf8(%r) raised %r" % (s, e))
    # error handler
    for cs in CHARSETS:
        try:
            b = s.encode(cs, "htmlentityreplace")
        except Exception as e:
            res.violate(
                "errhandler-raises", "%r.encode(%r,'htmlentityreplace') raised %r" % (s, cs, e)
            )
            continue
        res.count("errhandler_checked")
        try:
            t = b.decode(cs)
        except UnicodeDecodeError as e:
            res.violate("errhandler-invalid-bytes", "%r -> %r not valid %s: %s" % (s, b, cs, e))
            continue
        err = check_errhandler_text(s, t, cs)
        if err:
            res.violate(
                "errhandler-wrong", "%r.encode(%r,'htmlentityreplace') = %r: %s" % (s, cs, b, err),
                witness="%r.encode(%r,'htmlentityreplace') = %r" % (s, cs, b),
            )
        changed |= t != s
    res.evaluations += 1
    if via_template:
        for name, fn in (("h", F.html_escape), ("x", F.xml_escape), ("u", F.url_escape),
                         ("entity", F.html_entities_escape), ("trim", F.trim)):
            try:
                o = _templates[name].render_unicode(v=s)
                res.count("template_renders")
                if o != str(fn(s)):
                    res.violate("template-filter-differs", "${v|n,%s} with v=%r gave %r, filter gives %r" % (name, s, o, fn(s)))
            except Exception as e:
                res.violate("template-raises", "${v|n,%s} with v=%r raised %r" % (name, s, e))
        for cs in CHARSETS:
            try:
                b = _templates["enc:" + cs].render(v=s)
                res.count("template_renders")
                if type(b) is not bytes:
                    res.violate("template-enc-type", "render() with output_encoding gave %r" % type(b))
                    continue
                err = check_errhandler_text(s, b.decode(cs), cs)
                if err:
                    res.violate("template-errhandler-wrong", "render(v=%r) as %s = %r: %s" % (s, cs, b, err))
            except Exception as e:
                res.violate("template-raises", "output_encoding=%s render(v=%r) raised %r" % (cs, s, e))
    return changed


def _lk_render(lk, text, v):
    lk.put_string("t.html", text)
    return lk.get_template("t.html").render_unicode(v=v)


class Obj:
    def __init__(self, s):
        self.s = s

    def __str__(self):
        return self.s


def check_decode_objects(res):
    for enc in ("utf8", "latin1", "ascii", "cp1251", "utf_16"):
        dec = getattr(F.decode, enc)
        for v, exp in ((5, "5"), (None, "None"), (Obj("oé"), "oé"), (1.5, "1.5"), ("s€", "s€")):
            r = dec(v)
            res.evaluations += 1
            if type(r) is not str or r != exp:
                res.violate("decode-wrong", "decode.%s(%r) = %r" % (enc, v, r))
        for txt in ("plain", "café", "Ж"):
            try:
                b = txt.encode(enc)
            except UnicodeEncodeError:
                continue
            r = dec(b)
            res.evaluations += 1
            if type(r) is not str or r != txt:
                res.violate("decode-wrong", "decode.%s(%r) = %r" % (enc, b, r))
    # decoders obtained first and called later, interleaved: each decodes with the encoding it was asked for
    encs = ("utf8", "latin1", "cp1251", "utf_16", "koi8_r", "ascii")
    held = {enc: getattr(F.decode, enc) for enc in encs}
    for order in (encs, tuple(reversed(encs))):
        for enc in order:
            for txt in ("plain", "caf\u00e9", "\u0416\u0443\u043a"):
                try:
                    b = txt.encode(enc)
                except UnicodeEncodeError:
                    continue
                getattr(F.decode, order[0])  # another look-up in between
                try:
                    r = held[enc](b)
                except Exception as e:
                    r = "%s: %s" % (type(e).__name__, e)
                res.evaluations += 1
                res.count("held_decoders_called")
                if r != txt:
                    res.violate("decode-wrong", "d = decode.%s, held while other decoders were looked up: d(%r) = %r, expected %r" % (enc, b, r, txt))
    # the same through templates: a decoder aliased in a module block, and two decode filters in one expression list
    from mako.template import Template
    t = Template("<%! from mako.filters import decode\nto_u = decode.utf8\nto_l = decode.latin1 %>${a | n,to_u}|${b | n,to_l}|${a | n,decode.utf8}|${b | n,decode.latin1}")
    try:
        out = t.render_unicode(a="caf\u00e9".encode("utf-8"), b="caf\u00e9".encode("latin-1"))
    except Exception as e:
        out = "%s: %s" % (type(e).__name__, e)
    res.evaluations += 1
    res.count("held_decoders_called")
    if out != "caf\u00e9|caf\u00e9|caf\u00e9|caf\u00e9":
        res.violate("decode-wrong", "decoders aliased in a module block and used as filters rendered %r" % out)
    # decode.<enc> written as a filter in templates - every spelling of a codec name Python accepts as an attribute
    # (with digits and underscores), in the three places a filter can stand
    from mako.lookup import TemplateLookup
    spellings = [("utf8", "utf-8"), ("utf_8", "utf-8"), ("latin1", "latin-1"), ("latin_1", "latin-1"), ("iso8859_1", "latin-1"), ("iso8859_15", "iso8859-15"),
                 ("cp1251", "cp1251"), ("koi8_r", "koi8-r"), ("shift_jis", "shift_jis"), ("euc_jp", "euc-jp"), ("utf_16", "utf-16"), ("ascii", "ascii"), ("UTF8", "utf-8")]
    for attr, codec in spellings:
        txt = {"ascii": "plain", "latin-1": "caf\u00e9", "iso8859-15": "\u20acuro", "cp1251": "\u0416\u0443\u043a", "koi8-r": "\u0416\u0443\u043a", "shift_jis": "\u65e5\u672c",
               "euc-jp": "\u65e5\u672c"}.get(codec, "caf\u00e9 \u20ac \u65e5")
        b = txt.encode(codec)
        forms = {
            "expression filter": lambda: Template("${v | n,decode.%s}" % attr).render_unicode(v=b),
            "def filter": lambda: Template('<%%def name="d()" filter="decode.%s"><%% context.write(v) %%></%%def>${d()}' % attr, default_filters=[]).render_unicode(v=txt),
            "default_filters of a lookup": lambda: _lk_render(TemplateLookup(default_filters=["decode.%s" % attr]), "${v}", b),
            "buffer_filters": lambda: Template('<%def name="d()" buffered="True">${v}</%def>${d()}', buffer_filters=["decode.%s" % attr]).render_unicode(v=txt),
        }
        for where, fn in forms.items():
            res.evaluations += 1
            res.count("decode_filter_spellings")
            try:
                got = fn()
            except Exception as e:
                got = "%s: %s" % (type(e).__name__, e)
            if got != txt:
                res.violate("decode-filter-in-template", "decode.%s as %s: rendered %r, expected %r" % (attr, where, got, txt))
    res.nontrivial("decode-objects")


RANGE = 4096


def gen_cases(tier, seed):
    yield {"kind": "decode-objects"}
    for a in range(0, 0x110000, RANGE):
        yield {"kind": "codepoints", "lo": a, "hi": min(a + RANGE, 0x110000)}
    strings = ["".join(t) for n in (0, 1, 2, 3) for t in itertools.product(ALPHA, repeat=n)]
    for i in range(0, len(strings), 256):
        yield {"kind": "strings", "strings": strings[i : i + 256], "tpl": True}
    n = 20000 if tier == "quick" else 500000
    per = 250
    for i in range(n // per):
        yield {"kind": "random", "seed": seed, "index": i, "n": per, "tpl": i % 4 == 0}


FRAGS = ALPHA + ["&amp;", "&lt;", "&#34;", "&#x27;", "&#39", "&euro;", "&#x20AC;", "&nosuch;", "%20", "+", "%",
                 "\n", "\t", "\r", "\x00", " ", " ", "﻿", "\U0001f600", "&gt", "&#", "&#x;", "&;"]


def rand_string(r):
    n = r.choice((1, 2, 3, 5, 8, 13, 30))
    out = []
    for _ in range(n):
        k = r.random()
        if k < 0.55:
            out.append(r.choice(FRAGS))
        elif k < 0.8:
            cp = r.randrange(0x20, 0x3000)
            out.append(chr(cp))
        else:
            cp = r.randrange(0, 0x110000)
            if 0xD800 <= cp <= 0xDFFF:
                cp = 0x41
            out.append(chr(cp))
    return "".join(out)


def run_case(case):
    res = common.CaseResult()
    k = case["kind"]
    if k == "decode-objects":
        check_decode_objects(res)
    elif k == "codepoints":
        n = 0
        for cp in range(case["lo"], case["hi"]):
            if 0xD800 <= cp <= 0xDFFF:
                continue
            c = chr(cp)
            ch = check_string(c, res, via_template=(cp % 64 == 0 or cp < 0x300))
            ch |= check_string("a" + c + "&", res)
            n += 1 if ch else 0
        res.bulk_distinct = n
        res.sample = {"kind": k, "range": [hex(case["lo"]), hex(case["hi"])], "changed_by_some_filter": n}
    elif k == "strings":
        for s in case["strings"]:
            if check_string(s, res, via_template=case.get("tpl", False)):
                res.nontrivial("s", s)
        res.sample = {"kind": k, "first": case["strings"][:5]}
    elif k == "random":
        r = common.rng_for(case["seed"], "c10", case["index"])
        first = None
        for _ in range(case["n"]):
            s = rand_string(r)
            first = first or s
            if check_string(s, res, via_template=case.get("tpl", False)):
                res.nontrivial("s", s)
        res.sample = {"kind": k, "index": case["index"], "first": first}
    elif k == "single":
        check_string(case["s"], res, via_template=True)
    return res

"""C11 - compile-time errors name the template and the line of the fault.

Fault planting: a well-formed generated document (layout varied: leading blank lines, CRLF,
indentation, multi-line text before the fault, continuation lines, tabs) receives exactly one faulty
construct of one of 24 classes at a chosen position.  The expected line is kept by the emitter's own
line counter (independent of Mako's line tracking); for Python syntax errors the offending physical
line inside the construct is the one CPython itself reports when the same embedded code is compiled
natively.  Checked: exception class, .lineno, .pos (column of the construct; any column up to the %
for control lines), .filename, .source, agreement over string / file / lookup / module-directory
construction, RichTraceback().lineno and the text error template.
"""
import html
import os
import re
import shutil
import tempfile
import textwrap

from mk import common

PROPERTY = "C11"
LEVEL = "exploration"
RULE = (
    "base documents of 3-12 well-formed constructs (text runs, expressions, control blocks, <% %> blocks, defs, "
    "<%doc>, comments) under a random layout; one fault of each of 24 classes (Python syntax error in expression "
    "single/multi-line, control line, elif line, <% %> block line k, <%! %> block line k, def signature, page args, "
    "filter list, attribute expression, <%call expr>; unterminated ${ / <% ; unknown tag; closing tag without "
    "opening; mismatched closing tag; unterminated control keyword; mismatched end keyword; illegal ternary "
    "keyword; duplicate block; named block in def; missing attribute; illegal attribute; unclosed tag) planted at "
    "every construct boundary, at line start and mid-line where legal; x 4 construction paths. distinct = "
    "(document, fault class, position); non-trivial = the fault lies beyond line 1."
)
RULE += " added since: faults on continued control lines, in attribute expressions on a later line of the tag, at the end of multi-line def/block/page/call signatures; the HTML error page's reported line; a faulty template reached through <%include>; quick n=250 documents. anonymous block in <%namespace>, named block in <%call> and in a nested def, two or three lines below the enclosing tag. a duplicate block planted inside the block whose name it repeats, one and two levels down. faults on the 2nd / 3rd line of wrapped def, block, page and call signatures and call expressions. faults on later lines of wrapped filter lists (expression, def, page, text). path lookup-reload (a well-formed version loaded first, the faulty text met on the re-check)."
ASSUMPTIONS = [
    "CPython's SyntaxError.lineno on the embedded code decides which physical line is 'the offending Python line'",
    "the emitter's line/column counter in checks/c11.py is the reference for positions",
]
MIN_NONTRIVIAL = 300
REQUIRED_COUNTERS = ["faults_planted", "paths_agree", "richtraceback_checked", "python_line_faults", "structural_faults"]
RULE += " control structures left open inside a closed def / block / call."

_st = {}


def setup_worker():
    from mako import exceptions
    from mako.lookup import TemplateLookup
    from mako.template import Template

    _st.update(Template=Template, TemplateLookup=TemplateLookup, exceptions=exceptions, tmp=tempfile.mkdtemp(prefix="c11-"), n=0)
    import atexit

    atexit.register(lambda: shutil.rmtree(_st["tmp"], ignore_errors=True))


def py_error_line(code):
    """physical line (1-based) on which CPython reports the syntax error of `code`"""
    try:
        compile(code, "<native>", "exec")
    except SyntaxError as e:
        return e.lineno
    return None


# ------------------------------------------------------------------ fault classes
# each returns (text, kind, line_offset, col_mode, where) ; kind in Syntax|Compile|Either
# line_offset: offending line relative to the first line of the construct (0-based)
# where: "linestart" (construct must begin at a line start) | "any"
def faults(r, nl):
    F = []

    def add(name, text, kind, off=0, where="any", col="construct", py=False):
        F.append({"name": name, "text": text, "kind": kind, "off": off, "where": where, "col": col, "py": py})

    add("expr-syntax", "${ 1 + }", "Syntax", py=True)
    k = r.randint(1, 3)
    lines = ["(1 +", " 2 +", " 3 +", " 4)"]
    lines[k] = " 2 + + * 3 +"
    code = "\n".join(lines)
    pl = py_error_line(code) or (k + 1)
    add("expr-syntax-multiline", "${" + nl.join(lines) + "}", "Syntax", off=pl - 1, py=True)
    add("control-syntax", "% if x ===:" + nl + "t" + nl + "% endif" + nl, "Syntax", where="linestart", col="control", py=True)
    add("elif-syntax", "% if x:" + nl + "t" + nl + "% elif y ===:" + nl + "u" + nl + "% endif" + nl, "Syntax", off=2, where="linestart", col="control-elif", py=True)
    # control lines continued over several lines with a backslash: the fault is on one particular physical line
    bs = "\\"
    add("control-continued", "% if a and " + bs + nl + "    c +* 1:" + nl + "t" + nl + "% endif" + nl, "Syntax", off=1, where="linestart", col="unchecked", py=True)
    add("elif-continued-second-line", "% if a:" + nl + "t" + nl + "% elif b and " + bs + nl + "    c +* 1:" + nl + "u" + nl + "% endif" + nl, "Syntax", off=3, where="linestart", col="unchecked", py=True)
    add("elif-continued-first-line", "% if a:" + nl + "t" + nl + "% elif b +* 1 and " + bs + nl + "    c:" + nl + "u" + nl + "% endif" + nl, "Syntax", off=2, where="linestart", col="unchecked", py=True)
    add("except-continued-third-line", "% try:" + nl + "t" + nl + "% except (KeyError, " + bs + nl + "    ValueError, " + bs + nl + "    TypeError e):" + nl + "u" + nl + "% endtry" + nl,
        "Syntax", off=4, where="linestart", col="unchecked", py=True)
    add("for-continued", "% for i in (1, " + bs + nl + "   2 +* 3):" + nl + "x" + nl + "% endfor" + nl, "Syntax", off=1, where="linestart", col="unchecked", py=True)
    add("else-continued", "% if a:" + nl + "t" + nl + "% else " + bs + nl + "  +:" + nl + "u" + nl + "% endif" + nl, "Syntax", off=3, where="linestart", col="unchecked", py=True)
    for name, opener in (("code-block-line", "<%"), ("module-block-line", "<%!")):
        n = r.randint(2, 5)
        bad = r.randrange(n)
        body = ["v%d = %d" % (i, i) for i in range(n)]
        if r.random() < 0.5:
            body[0] = "q=1"  # a short first statement
        body[bad] = "v%d = = %d" % (bad, bad)
        lead = r.choice([0, 1, 2])
        margin = r.choice(["", "    ", "\t"]) if lead else ""  # code starting on the tag line fixes the margin at 0
        # the closing %> may stand on an indented line of its own, after blank lines
        tail = nl * r.choice([1, 1, 2, 4]) + r.choice(["", "", "    ", "\t\t            "])
        text = opener + nl * lead + (" " if lead == 0 else "") + nl.join((margin if (lead or i) else "") + b for i, b in enumerate(body)) + tail + "%>"
        add(name, text, "Syntax", off=lead + bad, py=True)
    add("def-signature", '<%def name="f(a,,)">x</%def>', "Either", py=True)
    add("page-args", '<%page args="a,,"/>', "Either", py=True)
    add("filter-list", "${x | h,,g}", "Syntax", py=True)
    # faults Python only notices on reaching the END of a signature (dangling operator, unclosed bracket)
    add("page-args-dangling", '<%page args="a, b=1 +"/>', "Either", py=True)
    add("block-args-unclosed", '<%block name="bb_" args="a=[1, 2">x</%block>', "Either", py=True)
    add("call-args-dangling", '<%call expr="f()" args="a, b=lambda">x</%call>', "Either", py=True)
    add("def-signature-dangling", '<%def name="f(a, b=1 +)">x</%def>', "Either", py=True)
    # signatures wrapped over several lines, the faulty Python on the second or third line
    add("def-signature-second-line", '<%def name="ml_(a,' + nl + '    b=)">x</%def>', "Either", off=1, col="unchecked", py=True)
    add("def-signature-third-line", '<%def name="ml3_(a,' + nl + "    b=1," + nl + '    c c)">x</%def>', "Either", off=2, col="unchecked", py=True)
    add("block-args-second-line", '<%block name="mlb_" args="a,' + nl + '    b=)">x</%block>', "Either", off=1, col="unchecked", py=True)
    add("page-args-third-line", '<%page args="a,' + nl + "    b=1," + nl + '    c c"/>', "Either", off=2, col="unchecked", py=True)
    add("call-args-second-line", '<%call expr="fcall2_()" args="a,' + nl + '    b=)">x</%call>', "Either", off=1, col="unchecked", py=True)
    add("call-expr-second-line", '<%call expr="fcall3_(1,' + nl + '    2 +* 3)">x</%call>', "Either", off=1, col="unchecked", py=True)
    # filter lists wrapped over lines, the fault after the first line
    add("filter-list-second-line", "${x | h," + nl + "g g}", "Either", off=1, col="unchecked", py=True)
    add("def-filter-third-line", '<%def name="flt_()" filter="h,' + nl + "trim," + nl + '    g g">x</%def>', "Either", off=2, col="unchecked", py=True)
    add("page-expression-filter-second-line", '<%page expression_filter="h,' + nl + '    g g"/>', "Either", off=1, col="unchecked", py=True)
    add("text-filter-second-line", '<%text filter="h,' + nl + '    g g">x</%text>', "Either", off=1, col="unchecked", py=True)
    add("attribute-expression", '<%include file="${1 +}"/>', "Either", py=True)
    add("call-expr", '<%call expr="f(,)">x</%call>', "Either", py=True)
    # an attribute expression whose Python starts on a later line than its ${
    add("attribute-expression-later-line", '<%include file="${' + nl + nl + '  1 +}"/>', "Either", off=2, col="unchecked", py=True)
    add("def-attribute-expression-later-line", '<%def name="ae_()" cached="${' + nl + '  True +}">x</%def>', "Either", off=1, col="unchecked", py=True)
    add("unterminated-expression", "${ 'abc' + " + nl + "more text" + nl, "Syntax", where="any")
    add("unterminated-code-block", "<% x = 1" + nl + "more" + nl, "Syntax")
    add("unknown-tag", "<%nosuchtag>x</%nosuchtag>", "Compile")
    add("closing-without-opening", "</%def>", "Syntax")
    add("mismatched-closing-tag", '<%def name="g()">x' + nl + "y</%block>", "Syntax", off=1, col="second-line-after-1")
    add("unterminated-control", "% if x:" + nl + "t" + nl, "Syntax", where="linestart", col="control")
    # a control structure left open inside a tag that IS closed: reported where the structure begins
    add("unterminated-control-in-def", '<%def name="uc_()">' + nl + "% if x:" + nl + "t" + nl + "</%def>", "Syntax", off=1, col="line-start")
    add("unterminated-control-in-block", '<%block name="ucb_">' + nl + "text" + nl + "% for i_ in x:" + nl + "t" + nl + nl + "</%block>", "Syntax", off=2, col="line-start")
    add("unterminated-control-in-call", '<%call expr="ucc_()">' + nl + "% while x:" + nl + "t" + nl + "</%call>", "Syntax", off=1, col="line-start")
    add("mismatched-end-keyword", "% if x:" + nl + "t" + nl + "% endfor" + nl, "Syntax", off=2, where="linestart", col="control")
    add("end-without-start", "% endif" + nl, "Syntax", where="linestart", col="control")
    add("illegal-ternary", "% for i in z:" + nl + "t" + nl + "% elif q:" + nl + "% endfor" + nl, "Syntax", off=2, where="linestart", col="control")
    add("duplicate-block", '<%block name="dup">a</%block>' + nl + '<%block name="dup">b</%block>', "Compile", off=1, col="line-start")
    add("named-block-in-def", '<%def name="h()">' + nl + '<%block name="inner">a</%block></%def>', "Compile", off=1, col="line-start")
    # a block that may not stand where it stands, several lines below the tag that encloses it
    add("anon-block-in-namespace", '<%namespace name="nsb_">' + nl + '<%def name="fine_()">ok</%def>' + nl + "<%block>a</%block>" + nl + "</%namespace>", "Compile", off=2, col="line-start")
    add("named-block-in-call", '<%call expr="fcall_()">' + nl + "text" + nl + '<%block name="incall_">a</%block></%call>', "Compile", off=2, col="line-start")
    add("named-block-in-nested-def", '<%def name="h2_()">' + nl + '<%def name="h3_()">' + nl + nl + '<%block name="inner2_">a</%block></%def></%def>', "Compile", off=3, col="line-start")
    add("duplicate-block-nested-in-itself", '<%block name="dupn_">' + nl + "text" + nl + '<%block name="dupn_">b</%block>' + nl + "</%block>", "Compile", off=2, col="line-start")
    add("duplicate-block-two-levels-down", '<%block name="dupm_">' + nl + '<%block name="mid_">' + nl + nl + '<%block name="dupm_">b</%block></%block>' + nl + "</%block>", "Compile", off=3, col="line-start")
    add("missing-attribute", "<%include/>", "Compile")
    add("missing-def-name", "<%def>x</%def>", "Compile")
    add("illegal-attribute", '<%def name="k()" bogus="1">x</%def>', "Compile")
    add("unclosed-tag", '<%def name="u()">never closed' + nl, "Syntax")
    add("invalid-control-line", "% 123abc !" + nl, "Either", where="linestart", col="control")
    return F


FILLERS = [
    lambda r, nl: "plain text " + str(r.randrange(100)),
    lambda r, nl: "text with ${'expr'} inside",
    lambda r, nl: nl + "% if True:" + nl + "  in if" + nl + "% endif" + nl,
    lambda r, nl: "<%" + nl + "    q_ = 1" + nl + "%>",
    lambda r, nl: '<%%def name="fill%d()">body</%%def>' % r.randrange(1000),
    lambda r, nl: "<%doc>a" + nl + "doc</%doc>",
    lambda r, nl: nl + "## a comment" + nl,
    lambda r, nl: "multi" + nl + "line" + nl + nl + "text",
    lambda r, nl: "continued \\" + nl + "line",
    lambda r, nl: "é ünïcode ©",
    lambda r, nl: nl + nl,
    lambda r, nl: "\t tabbed",
]


def build(r, fault, nl):
    """-> (text, expected_line, expected_cols(set) or None)"""
    parts = []
    for _ in range(r.randint(0, 3)):
        parts.append(nl)  # leading blank lines
    nbefore = r.randint(0, 6)
    for _ in range(nbefore):
        parts.append(r.choice(FILLERS)(r, nl))
    prefix = "".join(parts)
    if fault["where"] == "linestart":
        if prefix and not prefix.endswith("\n"):
            prefix += nl
    elif r.random() < 0.5 and prefix and not prefix.endswith("\n"):
        prefix += nl
    if fault["col"] in ("line-start", "second-line-after-1") and prefix and not prefix.endswith("\n"):
        prefix += nl
    indent = ""
    if fault["where"] == "linestart" and fault["col"].startswith("control") and r.random() < 0.5:
        indent = r.choice(["  ", "\t", "    "])
    ftext = fault["text"]
    if indent:
        ftext = nl.join((indent + ln) if ln.lstrip().startswith("%") else ln for ln in ftext.split(nl))
    after = "".join(r.choice(FILLERS)(r, nl) for _ in range(r.randint(0, 3)))
    # structural faults that swallow the rest (unterminated constructs) must not be 'closed' by the tail
    if fault["name"] in ("unterminated-expression",):
        after = after.replace("}", ")")
    if fault["name"] in ("unterminated-code-block",):
        after = after.replace("%>", "% >")
    text = prefix + ftext + ("" if ftext.endswith("\n") or not after else "") + after
    start_line = prefix.count("\n") + 1
    start_col = len(prefix) - (prefix.rfind("\n") + 1) + 1
    line = start_line + fault["off"]
    col = fault["col"]
    if col == "construct":
        cols = {start_col} if fault["off"] == 0 or True else None
    elif col == "control":
        cols = set(range(1, len(indent) + 2))
    elif col == "control-elif":
        cols = set(range(1, len(indent) + 2))
    elif col == "line-start":
        cols = {1}
    elif col == "second-line-after-1":
        cols = {2}
    else:
        cols = None
    return text, line, cols


def _reload_through_lookup(L, d, text):
    import time as _time

    fp = os.path.join(d, "r.html")
    with open(fp, "w", newline="") as f:
        f.write("well formed ${1 + 1}\n")
    past = _time.time() - 30
    os.utime(fp, (past, past))
    lk = L(directories=[d], filesystem_checks=True)
    lk.get_template("r.html").render_unicode()
    with open(fp, "w", newline="") as f:
        f.write(text)
    future = _time.time() + 30
    os.utime(fp, (future, future))
    return lk.get_template("r.html")


def run_fault(r, fault, nl, res):
    T = _st["Template"]
    L = _st["TemplateLookup"]
    ex = _st["exceptions"]
    text, line, cols = build(r, fault, nl)
    _st["n"] += 1
    d = os.path.join(_st["tmp"], "c%d" % _st["n"])
    os.makedirs(d)
    fn = os.path.join(d, "t.html")
    with open(fn, "w", newline="") as f:
        f.write(text)
    rc = {"kind": "one", "text": text, "line": line, "cols": sorted(cols) if cols else None, "fault": fault["name"], "klass": fault["kind"]}
    paths = {
        "string": (lambda: T(text), None),
        "file": (lambda: T(filename=fn), fn),
        "lookup": (lambda: L(directories=[d]).get_template("t.html"), fn),
        "module-directory": (lambda: T(filename=fn, module_directory=os.path.join(d, "mods")), fn),
        # compiled while ANOTHER template is rendering (an include): what is reported and displayed is still the
        # faulty template, not the one that was executing
        "included": (lambda: L(directories=[d]).get_template("main_.html").render_unicode(), fn),
        # a lookup that loaded a WELL-FORMED version first and meets the faulty text when it re-checks the file
        "lookup-reload": (lambda: _reload_through_lookup(L, d, text), os.path.join(d, "r.html")),
    }
    with open(os.path.join(d, "main_.html"), "w") as f:
        f.write("first line\nsecond line ${1 + 1}\n<%include file=\"t.html\"/>\nlast line\n")
    what0 = "fault %s planted at line %d of %r" % (fault["name"], line, text)
    seen = {}
    res.count("faults_planted")
    res.count("python_line_faults" if fault["py"] else "structural_faults")
    try:
        for pname, (ctor, efn) in paths.items():
            res.evaluations += 1
            what = what0 + " [path %s]" % pname
            try:
                ctor()
            except (ex.SyntaxException, ex.CompileException) as e:
                kind = "Syntax" if isinstance(e, ex.SyntaxException) else "Compile"
                if fault["kind"] != "Either" and kind != fault["kind"]:
                    res.violate("wrong-exception-class", "%s raised %sException: %s" % (what, kind, e), replay_case=rc)
                seen[pname] = (type(e).__name__, e.lineno, e.pos)
                fid = None
                if fault["name"] == "unclosed-tag" and str(e).startswith("Unclosed tag") and e.lineno == text.count("\n") + 1:
                    # recogniser: the position reported is where the template ends (the last lexer match)
                    fid = "C11/unclosed-tag-reports-end"
                if e.lineno != line:
                    res.violate("wrong-line-" + fault["name"], "%s: exception reports line %r (%s)" % (what, e.lineno, e), finding=fid,
                                witness="'<%def name=\"u()\">never closed' + more lines: reported at the last line" if fid else fault["name"], replay_case=rc)
                    if fid:
                        continue
                elif cols is not None and e.pos not in cols:
                    res.violate("wrong-column-" + fault["name"], "%s: exception reports column %r, construct is at %s (%s)" % (what, e.pos, sorted(cols), e), witness=fault["name"], replay_case=rc)
                if e.source != text:
                    res.violate("wrong-source", "%s: exception .source is not the template text: %r" % (what, (e.source or "")[:80]), replay_case=rc)
                if efn is None:
                    if e.filename is not None:
                        res.violate("wrong-filename", "%s: exception .filename = %r for a string template" % (what, e.filename), replay_case=rc)
                elif e.filename is None or os.path.realpath(e.filename) != os.path.realpath(efn):
                    res.violate("wrong-filename", "%s: exception .filename = %r, template file is %r" % (what, e.filename, efn), replay_case=rc)
                # RichTraceback and the text error template, taken in the handler
                rt = ex.RichTraceback()
                res.count("richtraceback_checked")
                if rt.lineno != line:
                    res.violate("richtraceback-line", "%s: RichTraceback().lineno = %r" % (what, rt.lineno), replay_case=rc)
                if rt.source is None or rt.source.replace("\r\n", "\n") != text.replace("\r\n", "\n"):
                    res.violate("richtraceback-source", "%s: RichTraceback().source is not the template" % what, replay_case=rc)
                txt = ex.text_error_template().render_unicode()
                if ("line: %d" % line) not in txt:
                    res.violate("error-template-line", "%s: text error template does not show line %d: %r" % (what, line, txt[-300:]), replay_case=rc)
                # the HTML error page displays the faulty template line itself (markup stripped, whitespace folded)
                if pname != "string":
                    continue  # (the page is costly to render; one of the four paths carries it)
                page = ex.html_error_template().render_unicode()
                page = re.sub(r"<style>.*?</style>", "", page, flags=re.S)
                page = " ".join(html.unescape(re.sub(r"<[^>]+>", "", page)).split())
                tlines = text.replace("\r\n", "\n").split("\n")
                faulty = " ".join(tlines[line - 1].split()) if 0 < line <= len(tlines) else ""
                if faulty:
                    res.count("html_error_pages_checked")
                    if faulty not in page:
                        res.violate("html-error-page-line", "%s: the HTML error page does not display line %d (%r)" % (what, line, faulty), replay_case=rc)
            except Exception as e:
                res.violate("non-mako-exception-" + fault["name"], "%s raised %s: %s" % (what, type(e).__name__, e), witness=fault["name"], replay_case=rc)
            else:
                res.violate("fault-accepted-" + fault["name"], "%s compiled without error" % what, witness=fault["name"], replay_case=rc)
        if len(set(seen.values())) > 1:
            res.violate("paths-disagree", "%s: %r" % (what0, seen), replay_case=rc)
        elif len(seen) == len(paths):
            res.count("paths_agree")
        if line > 1:
            res.nontrivial("c11", text, fault["name"])
        if res.sample is None:
            res.sample = {"fault": fault["name"], "expected_line": line, "template": text[:300]}
    finally:
        shutil.rmtree(d, ignore_errors=True)


def gen_cases(tier, seed):
    n = 250 if tier == "quick" else 4000
    per = 5
    for i in range(n // per):
        yield {"kind": "batch", "seed": seed, "index": i, "n": per}


def run_case(case):
    res = common.CaseResult()
    if case["kind"] == "batch":
        r = common.rng_for(case["seed"], "c11", case["index"])
        for _ in range(case["n"]):
            nl = r.choice(["\n", "\n", "\r\n"])
            for fault in faults(r, nl):
                run_fault(r, fault, nl, res)
    elif case["kind"] == "one":
        T = _st["Template"]
        ex = _st["exceptions"]
        try:
            T(case["text"])
            res.violate("fault-accepted", "compiled")
        except (ex.SyntaxException, ex.CompileException) as e:
            if e.lineno != case["line"] or (case["cols"] and e.pos not in case["cols"]):
                res.violate("wrong-position", "reports (%r, %r), expected line %r cols %r: %s" % (e.lineno, e.pos, case["line"], case["cols"], e))
    return res

"""C02 - expression substitution applies the filter pipeline in the documented order.

Model: `${expr | E}` writes E(P(D(value))) with D = default_filters, P = <%page expression_filter>,
`n` in E disabling D and P, `n` in P disabling only D; filter= on defs/blocks/<%text> and
buffer_filters apply their list alone.  User filters are non-commuting taggers, so the output
spells the order in which filters ran; built-in flags are judged by independent reference
implementations (a value is tracked as (text, is_markup) because `h` leaves Markup alone).
The scanner clause is checked with spellings whose Python value is known from native eval.
"""
import itertools
import urllib.parse
from html.entities import codepoint2name

from mk import common

PROPERTY = "C02"
LEVEL = "exploration"
EXHAUSTIVE = {"quick": True, "thorough": True}
RULE = (
    "pipelines: every list of <=2 (quick) / <=3 (thorough) expression filters over {h, x, u, trim, entity, str, "
    "unicode, decode.utf8, n, f, g, cf, mk('|'), mk(a=1)} x default_filters {unset, ['str'], [], ['f'], ['f','g'], "
    "['h'], ['str','trim']} x page expression_filter {absent, g, 'g,f', n, 'n,g', h} x 3 values, plus random "
    "pipelines of length 3-4; placements filter= on def / block / <%text> / buffered def with buffer_filters "
    "and a calling expression. scanner: 40 spellings (nested brackets, dict/set displays, strings with | } # "
    "quotes, lambdas, conditionals, comments and newlines inside brackets, f-strings) x filters x layouts. "
    "distinct = (configuration, expression text); non-trivial = at least two filters actually applied."
)
RULE += " added since: filters built by a call taking dict/set display arguments (mk({'a': 1}), mk({2}, k={})). string literals spanning lines (triple-quoted, backslash-continued) inside ${}, also below control lines and inside defs. None among the values."
ASSUMPTIONS = [
    "default and page filter names resolve at module level (imports / <%! %>), as documented; expression "
    "filters may also come from the context",
    "a trailing comma in a filter list is not asserted",
]
MIN_NONTRIVIAL = 1000
REQUIRED_COUNTERS = ["pipelines_rendered", "placements_rendered", "spellings_rendered", "n_flag_cases", "markup_idempotence_cases"]
RULE += "; a third of the pipeline batches and half of the placements rendered under strict_undefined=True (flag names are not names); n inside filter= attributes"
REQUIRED_COUNTERS += ["pipelines_under_strict_undefined", "placements_under_strict_undefined"]
RULE += "; a quarter of the pipeline batches and a third of the placements built by a TemplateLookup that carries default_filters / buffer_filters / strict_undefined"
REQUIRED_COUNTERS += ["pipelines_through_a_lookup", "placements_through_a_lookup"]

_st = {}
MODULE_BLOCK = (
    "<%!\n"
    "def f(s):\n    return 'f(' + str(s) + ')'\n"
    "def g(s):\n    return 'g(' + str(s) + ')'\n"
    "def ty(s):\n    return type(s).__name__ + ':' + str(s)\n"
    "def mk(*a, **k):\n"
    "    tag = 'mk[' + ','.join([str(x) for x in a] + ['%s=%s' % kv for kv in sorted(k.items())]) + ']'\n"
    "    return lambda s: tag + '(' + str(s) + ')'\n"
    "%>"
)


def cf(s):
    return "cf(" + str(s) + ")"


def setup_worker():
    from mako.template import Template

    from mako.lookup import TemplateLookup

    _st["Template"] = Template
    _st["TemplateLookup"] = TemplateLookup


def via_lookup(text, **kw):
    """the same template, built by a TemplateLookup that carries the filter configuration"""
    lk = _st["TemplateLookup"](**kw)
    lk.put_string("/p.html", text)
    return lk.get_template("/p.html")


# ------------------------------------------------------------------ reference implementations
ESC = {"&": "&amp;", ">": "&gt;", "<": "&lt;", '"': "&#34;", "'": "&#39;"}


def ref_escape(t):
    return "".join(ESC.get(c, c) for c in t)


def apply_one(name, val):
    """val = (python value or text, is_markup) -> same"""
    v, mk = val
    if name in ("f", "g", "cf"):
        return ("%s(%s)" % (name, v if isinstance(v, str) else str(v)), False)
    if name == "ty":
        # shows what it was handed: the value as passed (default_filters=[]), a str, or markup
        return ("%s:%s" % ("Markup" if mk else type(v).__name__, v), False)
    if name.startswith("mk("):
        inner = name[3:-1]

        def _tag(*a, **k):
            return "mk[" + ",".join([str(x) for x in a] + ["%s=%s" % kv for kv in sorted(k.items())]) + "]"

        tag = eval("_tag(%s)" % inner, {"_tag": _tag})  # the same arithmetic as mk() in the template's module block
        return ("%s(%s)" % (tag, v if isinstance(v, str) else str(v)), False)
    if name == "h":
        if mk:
            return (v, True)
        return (ref_escape(v if isinstance(v, str) else str(v)), True)
    if name == "x":
        if not isinstance(v, str):
            raise TypeError("x on non-str")
        return (ref_escape(v), False)
    if name == "u":
        if not isinstance(v, str):
            raise TypeError("u on non-str")
        return (urllib.parse.quote_plus(v.encode("utf8")), False)
    if name == "trim":
        if not isinstance(v, str):
            raise TypeError("trim on non-str")
        return (v.strip(), mk)
    if name == "entity":
        return ("".join("&%s;" % codepoint2name[ord(c)] if ord(c) in codepoint2name else c for c in str(v)), False)
    if name in ("str", "unicode"):
        return (str(v), False)
    if name == "decode.utf8":
        if isinstance(v, str):
            return (v, mk)
        if isinstance(v, bytes):
            return (v.decode("utf8"), False)
        return (str(v), False)
    raise KeyError(name)


def pipeline(value, D, P, E):
    fs = []
    if "n" not in E:
        if "n" not in P:
            fs += D
        fs += [p for p in P if p != "n"]
    fs += [e for e in E if e != "n"]
    val = (value, False)
    for nm in fs:
        val = apply_one(nm, val)
    v = val[0]
    if not isinstance(v, str):
        # nothing turned the value into a string (default_filters=[] and no str-producing filter):
        # what the buffer then does with it is outside the statement
        raise TypeError("non-str reaches the writer")
    return v, len(fs)


VALUES = {
    "s": " <a&b>\"'é ",
    "i": 42,
    "p": "plain",
    "z": None,  # h is markupsafe.escape: None comes out as the text 'None', like any other object
}
EFILTERS = ["h", "x", "u", "trim", "entity", "str", "unicode", "decode.utf8", "n", "f", "g", "cf", "ty", "mk('|')", "mk(a=1)",
            # brace literals as arguments of a filter call: the filter list does not end at their closing brace
            "mk({'a': 1})", "mk({2}, k={})"]
DEFAULTS = [None, ["str"], [], ["f"], ["f", "g"], ["h"], ["str", "trim"]]
PAGES = [None, ["g"], ["g", "f"], ["n"], ["n", "g"], ["h"]]


def build_expr_template(D, P, exprs):
    page = "" if P is None else '<%%page expression_filter="%s"/>' % ",".join(P)
    return page + MODULE_BLOCK + "".join("[%s]" % e for e in exprs)


def run_pipelines(case, res):
    T = _st["Template"]
    if case.get("lookup"):
        T = via_lookup
        res.count("pipelines_through_a_lookup", len(case["items"]))
    D, P = case["D"], case["P"]
    effD = ["str"] if D is None else D
    effP = P or []
    items = []
    for E, vname in case["items"]:
        spell = "${%s%s}" % (vname, (" | " + ", ".join(E)) if E else "")
        items.append((E, vname, spell))
    kw = {} if D is None else {"default_filters": list(D)}
    if case.get("strict"):
        # every name these templates read is defined: strict_undefined changes nothing (the flag names are not names)
        kw["strict_undefined"] = True
        res.count("pipelines_under_strict_undefined", len(items))
    text = build_expr_template(D, P, [it[2] for it in items])
    try:
        t = T(text, **kw)
        out = t.render_unicode(cf=cf, **VALUES)
        whole_ok = True
    except Exception:
        whole_ok = False
    # expected per item (an item whose reference raises TypeError is rendered alone and must raise too)
    exp_parts = []
    singles = []
    for E, vname, spell in items:
        try:
            e, nf = pipeline(VALUES[vname], effD, effP, E)
            exp_parts.append(("[%s]" % e, nf, E, vname, spell))
        except TypeError:
            singles.append((E, vname, spell))
            exp_parts.append(None)
            res.count("not_asserted_type_errors")
    rc = {"kind": "pipelines", "D": D, "P": P, "items": case["items"], "strict": bool(case.get("strict")), "lookup": bool(case.get("lookup"))}
    if not singles:
        res.evaluations += len(items)
        res.count("pipelines_rendered", len(items))
        if not whole_ok:
            # find the culprit by rendering one at a time
            for part in exp_parts:
                judge_single(T, kw, D, P, part, res, rc)
        else:
            exp = "".join(p[0] for p in exp_parts)
            if out != exp:
                for part in exp_parts:
                    judge_single(T, kw, D, P, part, res, rc)
            for p in exp_parts:
                note(res, p, D, P)
    else:
        for part in exp_parts:
            if part is not None:
                res.evaluations += 1
                res.count("pipelines_rendered")
                judge_single(T, kw, D, P, part, res, rc)
                note(res, part, D, P)
    res.sample = {"default_filters": D, "page_filter": P, "template": text[len(MODULE_BLOCK):][:200] if False else [it[2] for it in items][:5]}


def note(res, part, D, P):
    exp, nf, E, vname, spell = part
    if nf >= 2:
        res.nontrivial("p", D, P, spell)
    if "n" in E or (P and "n" in P):
        res.count("n_flag_cases")
    if E.count("h") >= 1 and ((D and "h" in D) or (P and "h" in P) or E.count("h") > 1):
        res.count("markup_idempotence_cases")


def judge_single(T, kw, D, P, part, res, rc):
    exp, nf, E, vname, spell = part
    text = build_expr_template(D, P, [spell])
    what = ("through a TemplateLookup, " if rc.get("lookup") else "") + "default_filters=%r page expression_filter=%r%s expression %s with %s=%r" % (D, P, " strict_undefined=True" if kw.get("strict_undefined") else "", spell, vname, VALUES[vname])
    try:
        out = T(text, **kw).render_unicode(cf=cf, **VALUES)
    except Exception as e:
        res.violate("pipeline-raises", "%s raised %s: %s; expected %r" % (what, type(e).__name__, e, exp), witness=what,
                    replay_case={"kind": "pipelines", "D": D, "P": P, "items": [[E, vname]], "strict": rc["strict"], "lookup": rc["lookup"]})
        return
    if out != exp:
        res.violate("pipeline-order", "%s rendered %r, expected %r" % (what, out, exp), witness=what,
                    replay_case={"kind": "pipelines", "D": D, "P": P, "items": [[E, vname]], "strict": rc["strict"], "lookup": rc["lookup"]})


# ------------------------------------------------------------------ placements
def run_placements(case, res):
    T = _st["Template"]
    if case.get("lookup"):
        T = via_lookup
        res.count("placements_through_a_lookup")
    F, BF, D, callE = case["F"], case["BF"], case["D"], case["E"]
    effD = ["str"] if D is None else D
    body = " <i>&\"x\" "
    kw = {}
    if D is not None:
        kw["default_filters"] = list(D)
    if BF:
        kw["buffer_filters"] = list(BF)
    if case.get("strict"):
        kw["strict_undefined"] = True
        res.count("placements_under_strict_undefined")
    fattr = ' filter="%s"' % ",".join(F) if F else ""
    callspell = (" | " + ", ".join(callE)) if callE else ""

    def chain(names, v):
        val = (v, False)
        for nm in names:
            if nm != "n":
                val = apply_one(nm, val)
        return val

    placements = {}
    # def with filter=, called by an expression: writes filter(content) at the call, returns ''
    placements["def"] = (
        MODULE_BLOCK + "<%%def name=\"d()\"%s>%s</%%def>A${d()%s}Z" % (fattr, body, callspell),
        "A" + chain(F, body)[0] + pipeline("", effD, [], callE)[0] + "Z",
    )
    # buffered def: returns buffer_filters(filter(content)); the calling expression's pipeline applies to it
    inner = chain(list(F) + list(BF), body)
    fs = ([] if "n" in callE else list(effD)) + [e for e in callE if e != "n"]
    val = inner
    for nm in fs:
        val = apply_one(nm, val)
    placements["buffered-def"] = (
        MODULE_BLOCK + "<%%def name=\"d()\" buffered=\"True\"%s>%s</%%def>A${d()%s}Z" % (fattr, body, callspell),
        "A" + val[0] + "Z",
    )
    placements["block"] = (
        MODULE_BLOCK + "A<%%block name=\"b\"%s>%s</%%block>Z" % (fattr, body),
        "A" + chain(F, body)[0] + "Z",
    )
    placements["anon-block"] = (
        MODULE_BLOCK + "A<%%block%s>%s</%%block>Z" % (fattr, body),
        "A" + chain(F, body)[0] + "Z",
    )
    tb = " <%def> ${x} </%def> & "
    placements["text"] = (
        MODULE_BLOCK + "A<%%text%s>%s</%%text>Z" % (fattr, tb),
        "A" + chain(F, tb)[0] + "Z",
    )
    placements["capture"] = (
        MODULE_BLOCK + "<%%def name=\"d()\"%s>%s</%%def>A${capture(d)%s}Z" % (fattr, body, callspell),
        # capture() returns the joined buffer content: a plain str, whatever the filters returned
        "A" + (lambda v: [v := apply_one(nm, v) for nm in fs][-1] if fs else v)((chain(F, body)[0], False))[0] + "Z",
    )
    for pname, (text, exp) in placements.items():
        res.evaluations += 1
        res.count("placements_rendered")
        what = "placement=%s filter=%r buffer_filters=%r default_filters=%r calling filters=%r%s" % (pname, F, BF, D, callE, " strict_undefined=True" if case.get("strict") else "")
        try:
            out = T(text, **kw).render_unicode(cf=cf)
        except Exception as e:
            res.violate("placement-raises", "%s raised %s: %s\n%s" % (what, type(e).__name__, e, text[len(MODULE_BLOCK):]), witness=what, replay_case=case)
            continue
        if out != exp:
            res.violate("placement-output", "%s rendered %r, expected %r\n%s" % (what, out, exp, text[len(MODULE_BLOCK):]), witness=what, replay_case=case)
        if len(F) + len(BF) >= 2:
            res.nontrivial("pl", pname, F, BF, D, callE)
    res.sample = {"placement": "def/buffered-def/block/anon-block/text/capture", "filter": F, "buffer_filters": BF}


# ------------------------------------------------------------------ scanner
SPELLINGS = [
    "'a|b'", '"}"', "'${'", "{'k': '}'}['k']", "(1|2)", "[1|2, 3][0]", "dd['a|b']", '"it\'s"', "'say \"hi\"'",
    "'''tri'ple'''", '"a\\"b"', "'a\\'}b'", "(lambda x: x)('v')", "'x' if True else 'y'", "('a'\n 'b'\n)",
    "(\n 1 # comment } | \n + 2)", "({1, 2} and 'set')", "'%s|%s' % (1, 2)", 'f"{1|2}"', "'#notcomment'", "'#' + '}'",
    "{'a': {'b': '}}'}}['a']['b']", "[x for x in ('}', '|')][1]", "dd.get('a|b', '}')", "max(1, 2)", "'}' * 2",
    '"""a}b|c"""', "len('}}}')", "(1,\n 2)[1]", "[\n'|'\n][0]", "{'k':\n'v|'}['k']", "'é|ü'", "'\\\\'", "'\\\\' + '}'",
    "str({'}': 1})", "'a' 'b|'", "('(' + ')')", "'[' + '{'", "(lambda: '}')()", "{'|': '|'}['|']",
    # string literals that span lines: their value must not pick up anything from the generated module's layout
    "\'\'\'a\nb\'\'\'", '"""x|\n}y\n  z"""', "'one \\\ntwo'", "('p'\n   \'\'\'q\nr\'\'\')", '"""\n"""', "\'\'\'t\n\n\tu\'\'\'", "f\'\'\'{1}\n{2}\'\'\'",
]
# the same expression below a control line and inside a def (deeper indentation in the generated module)
WRAPS = [("<", ">", "<", ">"), ("\n% if True:\n<", ">\n% endif\n", "\n<", ">\n"), ('<%def name="w_()"><', '></%def>${w_()}', "<", ">"),
         ('<%def name="w_()">\n% for i_ in (1,):\n% if i_:\n<', '>\n% endif\n% endfor\n</%def>${w_()}', "\n<", ">\n")]



def run_scanner(case, res):
    T = _st["Template"]
    env = {"dd": {"a|b": "dval"}}
    for spelling in case["spellings"]:
        try:
            value = eval(spelling, dict(env))
        except Exception as e:
            res.violate("harness", "spelling %r does not evaluate: %s" % (spelling, e))
            continue
        for E in case["filters"]:
            for pad in ("", " ", "\n"):
                expr = "${" + pad + spelling + pad + ((" | " if pad else "|") + ",".join(E) if E else "") + pad + "}"
                for wp, ws, ep, es in (WRAPS if "\n" in spelling else WRAPS[:1]):
                    text = MODULE_BLOCK + wp + expr + ws
                    exp = ep + pipeline(value, ["str"], [], E)[0] + es
                    res.evaluations += 1
                    res.count("spellings_rendered")
                    what = "expression %r" % expr + ("" if wp == "<" else " written as %r" % (wp + "..." + ws))
                    try:
                        out = T(text).render_unicode(cf=cf, **env)
                    except Exception as e:
                        res.violate("scanner-raises", "%s raised %s: %s (value %r)" % (what, type(e).__name__, e, value), witness=what,
                                    replay_case={"kind": "scanner", "spellings": [spelling], "filters": [E]})
                        continue
                    if out != exp:
                        res.violate("scanner-output", "%s rendered %r, expected %r" % (what, out, exp), witness=what,
                                    replay_case={"kind": "scanner", "spellings": [spelling], "filters": [E]})
                    if any(c in spelling for c in "|}#\n"):
                        res.nontrivial("sc", expr)
    res.sample = {"scanner": case["spellings"][:3]}


# ------------------------------------------------------------------ directed: object with __html__
def run_directed(res):
    T = _st["Template"]

    class H:
        def __html__(self):
            return "<b>"

        def __str__(self):
            return "H-str<"

    cases = [
        ("${v | h}", {"default_filters": []}, "<b>"),
        ("${v | n,h}", {}, "<b>"),
        ("${v | str,h}", {"default_filters": []}, "H-str&lt;"),
        ("${v | h}", {}, "H-str&lt;"),
        ("${v | n,str,x}", {}, "H-str&lt;"),
        ("${v | n,h,x}", {}, "&lt;b&gt;"),
        ("${v | n,h,h}", {}, "<b>"),
        ("${b | n,decode.utf8,f}", {}, "f(bé)"),
        ("${b | decode.latin1}", {}, "b'b\\xc3\\xa9'"),
        ("${b | n,decode.latin1}", {}, "bÃ©"),
        ("${i | n,decode.ascii}", {}, "42"),
        ("${s | n, trim ,  f}", {}, "f(t)"),
        ("${s|n,trim,f}", {}, "f(t)"),
    ]
    for text, kw, exp in cases:
        res.evaluations += 1
        res.count("directed")
        try:
            out = T(MODULE_BLOCK + text, **kw).render_unicode(v=H(), b="bé".encode("utf8"), i=42, s=" t ")
        except Exception as e:
            out = "%s: %s" % (type(e).__name__, e)
        if out != exp:
            res.violate("builtin-flag", "%s with %r rendered %r, expected %r" % (text, kw, out, exp), witness=text)
        res.nontrivial("d", text, sorted(kw))


# ------------------------------------------------------------------ plumbing
def gen_cases(tier, seed):
    yield {"kind": "directed"}
    kmax = 2 if tier == "quick" else 3
    lists = [list(t) for k in range(0, kmax + 1) for t in itertools.product(EFILTERS, repeat=k)]
    r = common.rng_for(seed, "c02")
    nrand = 5000 if tier == "quick" else 50000
    nth = 0
    for _ in range(nrand):
        lists.append([r.choice(EFILTERS) for _ in range(r.choice([3, 4]))])
    for D in DEFAULTS:
        for P in PAGES:
            items = []
            for E in lists:
                for vname in ("s", "i", "p", "z") if len(E) <= 2 else (r.choice(["s", "i", "p", "z"]),):
                    items.append([E, vname])
                    if len(items) >= 60:
                        nth += 1
                        yield {"kind": "pipelines", "D": D, "P": P, "items": items, "strict": nth % 3 == 0, "lookup": nth % 4 == 1}
                        items = []
            if items:
                nth += 1
                yield {"kind": "pipelines", "D": D, "P": P, "items": items, "strict": nth % 3 == 0, "lookup": nth % 4 == 1}
    # (`n` in a filter= attribute is a flag without effect there: no default filters to switch off)
    FL = [[], ["f"], ["f", "g"], ["h"], ["h", "f"], ["trim", "f"], ["g", "x"], ["mk('|')", "f"], ["n"], ["n", "f"], ["u", "n", "entity"]]
    BFL = [[], ["g"], ["f", "g"], ["trim"]]
    for F in FL:
        for BF in BFL:
            for D in (None, [], ["f"], ["h"]):
                for E in ([], ["g"], ["n"], ["n", "f"], ["h"]):
                    nth += 1
                    yield {"kind": "placements", "F": F, "BF": BF, "D": D, "E": E, "strict": nth % 2 == 0, "lookup": nth % 3 == 0}
    flt = [[], ["f"], ["f", "g"], ["n", "h"], ["mk('|')"], ["mk('}', ')')", "f"], ["trim", "mk(a=1)"]]
    for i in range(0, len(SPELLINGS), 4):
        yield {"kind": "scanner", "spellings": SPELLINGS[i : i + 4], "filters": flt}


def run_case(case):
    res = common.CaseResult()
    k = case["kind"]
    if k == "pipelines":
        run_pipelines(case, res)
    elif k == "placements":
        run_placements(case, res)
    elif k == "scanner":
        run_scanner(case, res)
    elif k == "directed":
        run_directed(res)
    return res

"""C04 - names resolve through scopes, module, imports, context, builtins, UNDEFINED.

By construction: one variable is bound at a chosen set of binding sites, each carrying a sentinel
value that names the site, and read at a chosen read site through a module-level show() helper; the
expected sentinel is the first hit in the statement's order.  The whole binding-set x read-site x
strict product is enumerated.  Isolation of the context, context.kwargs, included templates, and
the reserved names are checked alongside.
"""
import copy
import itertools

from mk import common

PROPERTY = "C04"
LEVEL = "exploration"
EXHAUSTIVE = {"quick": True, "thorough": True}
RULE = (
    "all subsets of size <=3 (quick) / <=5 (thorough) of binding sites {context, page argument, body <% %> "
    "assignment, def argument, enclosing-def local, loop target, module level, imported def, builtin} (9 sites, "
    "'nowhere' = empty set) x read sites {body, top-level def, top-level def called from a call body, nested def, anonymous block, named block, call "
    "body, control line, tag attribute expression, filter position} x strict_undefined on/off x layouts, "
    "exhaustively; combinations whose outcome the statement leaves open are counted as not asserted. reserved "
    "names: 4 names x 5 render entry points and x 8 binding forms. distinct = (sites, read site, strict, layout); "
    "non-trivial = at least two binding sites compete, or the name is unbound."
)
RULE += " added since: 12 layouts with decoy names, read sites 'def called through <%call>' and 'second expression of a tag attribute', identity checks of the UNDEFINED singleton, falsy context values (None, 0, '', False, [], 0.0) under both strict settings. read sites on `% elif` / `% except` lines only and in the default of a def nested in another def. the <%page> argument written keyword-only in every other combination. defs shadowing defs (nested def named like a top-level def or block; two levels down; as call target; def argument). the variable named like a filter shortcut (trim) at the read sites nesteddefault / attr / elif."
ASSUMPTIONS = [
    "when a name is bound both at module level and by a body assignment / <%page> argument, what a def or named "
    "block (separate callables that receive body values through the context) sees is not asserted",
    "a `% for` target of the BODY is not promised to be visible inside defs called from it (only <%page> "
    "arguments and <% %> assignments are)",
]
MIN_NONTRIVIAL = 300
REQUIRED_COUNTERS = ["resolutions_checked", "undefined_checked", "strict_nameerrors_checked", "context_isolation_checked", "reserved_render_checked", "reserved_assign_checked", "not_asserted"]
REQUIRED_COUNTERS += ["shadowing_checked"]
RULE += "; directed scenarios for the names a call body takes as arguments (args=): the call expression reads the same name from the enclosing scope"
REQUIRED_COUNTERS += ["call_body_args_checked"]
RULE += "; imported defs named like attributes of the Namespace object (uri, name, cache, ...), by import=* and by name"
REQUIRED_COUNTERS += ["import_attr_names_checked"]
RULE += "; read site attr3: only in the args= of an <%include> whose file= is an expression"

_st = {}

SITES = ["ctx", "page", "body", "defarg", "encl", "loop", "mod", "nsimport", "builtin"]
READS = ["body", "def", "defcb", "nested", "anonblock", "namedblock", "callbody", "calldef", "ctrl", "attr", "attr2", "attr3", "filter",
         "elif", "except", "nesteddefault"]
SHOW = (
    "<%!\n"
    "def show(v):\n"
    "    if v is UNDEFINED:\n        return 'UNDEF'\n"
    "    if isinstance(v, str):\n        return v\n"
    "    if callable(v):\n"
    "        try:\n            return str(v() or '')\n"
    "        except TypeError:\n            return 'builtin:' + getattr(v, '__name__', '?')\n"
    "    return repr(v)\n"
    "%>"
)


def setup_worker():
    from mako import exceptions, runtime
    from mako.lookup import TemplateLookup
    from mako.template import Template

    _st.update(Template=Template, TemplateLookup=TemplateLookup, exceptions=exceptions, runtime=runtime)


def applicable(sites, read):
    s = set(sites)
    if "defarg" in s and read not in ("def", "defcb", "nested"):
        return False
    if "encl" in s and read != "nested":
        return False
    if "filter" == read and ("loop" in s):
        return False
    if read == "nesteddefault" and "loop" in s:
        return False
    return True


def expected(sites, read, name):
    """-> sentinel | 'UNDEF' | None (not asserted)"""
    s = set(sites)
    V = lambda k: "%s:%s" % (k, name)  # noqa: E731
    body_locals = []  # what the body scope itself binds, strongest first
    if "body" in s:
        body_locals.append("body")
    if "page" in s:
        body_locals.append("ctx" if "ctx" in s else "page")  # render(x=..) fills the page argument
    order = []
    if read in ("body", "ctrl", "attr", "attr2", "attr3", "callbody", "calldef", "anonblock", "filter", "elif", "except"):
        # python locals / closures of the body
        if "loop" in s:
            order.append("loop")
        order += body_locals
        order += [k for k in ("mod", "nsimport", "ctx", "builtin") if k in s]
    elif read == "namedblock":
        # a named block is a callable of its own that is handed the context, not the body's locals:
        # body assignments and <%page> arguments are not visible in it (documented: use args=)
        if "loop" in s:
            order.append("loop")
        order += [k for k in ("mod", "nsimport", "ctx", "builtin") if k in s]
    elif read in ("def", "defcb"):
        # defcb: the def is called by name from inside a <%call> body written in the template body
        if "loop" in s:
            order.append("loop")  # the loop is written inside the def/block
        if "defarg" in s:
            order.append("defarg")
        if "mod" in s and body_locals:
            return None  # module-level vs values handed down through the context: not asserted
        order += [k for k in ("mod", "nsimport") if k in s]
        if "nsimport" in s and body_locals:
            return None
        order += body_locals
        order += [k for k in ("ctx", "builtin") if k in s]
    elif read in ("nested", "nesteddefault"):
        if "loop" in s:
            order.append("loop")
        if "defarg" in s:
            order.append("defarg")
        if "encl" in s:
            order.append("encl")
        if ("mod" in s or "nsimport" in s) and body_locals:
            return None
        order += [k for k in ("mod", "nsimport") if k in s]
        order += body_locals
        order += [k for k in ("ctx", "builtin") if k in s]
    if not order:
        return "UNDEF"
    k = order[0]
    if k == "builtin":
        return "builtin:" + name
    return V(k)


def build(sites, read, name, layout):
    """-> (main template text, ns template text, render kwargs)"""
    s = set(sites)
    nl = layout["nl"]
    pre = []
    if "page" in s:
        # (the page argument is written keyword-only in every other combination: it is an argument all the same)
        star = "*, " if (len(sites) + len(read)) % 2 == 0 else ""
        pre.append('<%%page args="%s%s=\'page:%s\'"/>' % (star, name, name))
    if "mod" in s:
        pre.append("<%%! %s = 'mod:%s' %%>" % (name, name))
    if "nsimport" in s:
        pre.append('<%%namespace file="ns.html" import="%s"/>' % name)
    pre.append(SHOW)
    body = []
    if "body" in s:
        body.append("<%% %s = 'body:%s' %%>" % (name, name))
    rd = "${show(%s)}" % name
    decoy = DECOYS[layout["decoy"]] % {"n": name} if layout.get("decoy") else ""
    if nl == "\r\n":
        decoy = decoy.replace("\n", "\r\n")
    if decoy and layout["in"] and read in ("def", "defcb", "nested", "anonblock", "namedblock", "callbody", "calldef") and layout["decoy"] != "otherdef":
        rd = decoy + rd  # inside the construct that holds the read site, just before it
    elif decoy:
        body.append(decoy)
    inner_loop = "loop" in s and read in ("def", "defcb", "nested", "namedblock", "anonblock")

    def wrap_loop(text):
        return "%% for %s in ['loop:%s']:%s%s%s%% endfor%s" % (name, name, nl, text, nl, nl)

    def maybe(text, cond):
        return (nl + wrap_loop(text)) if cond else text

    if read == "body":
        core = "[" + rd + "]"
    elif read == "ctrl":
        core = "%% for y_ in [show(%s)]:%s[${y_}]%s%% endfor%s" % (name, nl, nl, nl)
    elif read == "attr":
        core = '<%%self:echo v="${show(%s)}"/>' % name
    elif read == "attr2":
        # a tag attribute holding TWO expressions; the name is read in the first one
        core = "<%%include file=\"${keep(%s)}${'inc.html'}\"/>[${KEPT[-1]}]" % name
    elif read == "attr3":
        # the name is read ONLY in the args= of an include whose file= is computed (from another name)
        core = "<%%include file=\"${str('inc') + '.html'}\" args=\"v=keep(%s)\"/>[${KEPT[-1]}]" % name
    elif read == "filter":
        core = "[${'' | n,mkf(%s)}]" % name
    elif read == "elif":
        # the name occurs ONLY on a continuation line of the control structure
        core = "%% if not 1:%s%% elif keep(%s) == '':%s[${KEPT[-1]}]%s%% endif%s" % (nl, name, nl, nl, nl)
    elif read == "except":
        core = "%% try:%s<%% raise ValueError() %%>%s%% except (ValueError if keep(%s) == '' else KeyError):%s[${KEPT[-1]}]%s%% endtry%s" % (nl, nl, name, nl, nl, nl)
    elif read == "nesteddefault":
        # the name occurs ONLY in the default of a def nested in another def: evaluated in the enclosing def
        core = "${outer2()}"
    elif read == "callbody":
        core = '<%%call expr="wrap()">%s</%%call>' % ("[" + rd + "]")
    elif read == "calldef":
        # a def written inside a <%call>: a closure of the calling scope, like the call's body
        core = '<%%call expr="wrapn()"><%%def name="nx()">%s</%%def></%%call>' % ("[" + rd + "]")
    elif read == "anonblock":
        core = "<%%block>%s</%%block>" % maybe("[" + rd + "]", inner_loop)
    elif read == "namedblock":
        core = '<%%block name="blk">%s</%%block>' % maybe("[" + rd + "]", inner_loop)
    elif read == "def":
        core = "${rd()}"
    elif read == "defcb":
        core = '<%call expr="wrap()">${rd()}</%call>'
    elif read == "nested":
        core = "${outer()}"
    if "loop" in s and not inner_loop:
        core = wrap_loop(core) if not core.endswith(nl) else "%% for %s in ['loop:%s']:%s%s%% endfor%s" % (name, name, nl, core, nl)
    elif read in ("ctrl",):
        pass
    body.append(core)
    defs = []
    defs.append('<%def name="echo(v)">[${v}]</%def>')
    defs.append('<%def name="wrap()">${caller.body()}</%def>')
    defs.append('<%def name="wrapn()">${caller.nx()}</%def>')
    defs.append("<%!\ndef mkf(v):\n    return lambda s: show(v)\nKEPT = []\ndef keep(v):\n    KEPT.append(show(v))\n    return ''\n%>")
    arg = "%s='defarg:%s'" % (name, name) if "defarg" in s else ""
    if read in ("def", "defcb"):
        defs.append('<%%def name="rd(%s)">%s</%%def>' % (arg, maybe("[" + rd + "]", inner_loop)))
    if read == "nesteddefault":
        defs.append('<%%def name="outer2()">${inner2()}<%%def name="inner2(a_=show(%s))">[${a_}]</%%def></%%def>' % name)
    if read == "nested":
        encl = "<%% %s = 'encl:%s' %%>" % (name, name) if "encl" in s else ""
        defs.append(
            '<%%def name="outer()">%s${inner()}<%%def name="inner(%s)">%s</%%def></%%def>' % (encl, arg, maybe("[" + rd + "]", inner_loop))
        )
    text = nl.join(pre) + nl + nl.join(body) + nl + nl.join(defs) + nl
    ns = '<%%def name="%s()">nsimport:%s</%%def>' % (name, name)
    kw = {}
    if "ctx" in s:
        kw[name] = "ctx:%s" % name
    return text, ns, kw


def run_resolution(case, res):
    L = _st["TemplateLookup"]
    for sites, read, strict, li in case["items"]:
        name = "abs" if "builtin" in sites else "xv"
        if name == "xv" and read in ("nesteddefault", "attr", "elif"):
            name = "trim"  # a name that is also a filter shortcut: as a variable it resolves like any other
        exp = expected(sites, read, name)
        res.evaluations += 1
        if exp is None:
            res.count("not_asserted")
            continue
        layout = LAYOUTS[li]
        text, ns, kw = build(sites, read, name, layout)
        lk = L(strict_undefined=strict)
        lk.put_string("ns.html", ns)
        lk.put_string("inc.html", "")
        what = "binding sites %r, read in %s, strict_undefined=%s" % (sites, read, strict)
        rc = {"kind": "resolution", "items": [[sites, read, strict, li]]}
        try:
            lk.put_string("main.html", text)
            t = lk.get_template("main.html")
        except Exception as e:
            res.violate("compile-raises", "%s: %s: %s\n%s" % (what, type(e).__name__, e, text), replay_case=rc)
            continue
        passed = copy.deepcopy(kw)
        try:
            out = t.render_unicode(**kw)
            got = ("out", out)
        except NameError as e:
            got = ("NameError", str(e))
        except Exception as e:
            got = ("exc", "%s: %s" % (type(e).__name__, e))
        res.count("resolutions_checked")
        if exp == "UNDEF" and strict:
            res.count("strict_nameerrors_checked")
            if got[0] != "NameError" or name not in got[1]:
                res.violate("strict-undefined", "%s: expected NameError naming %r, got %r\n%s" % (what, name, got, text), witness=what, replay_case=rc)
        else:
            if exp == "UNDEF":
                res.count("undefined_checked")
            needle = exp if exp.startswith("nsimport:") else "[" + exp + "]"  # an imported def writes its text when show() calls it
            if got[0] != "out" or needle not in got[1].replace("\r", ""):
                res.violate("resolution-read-in-" + read, "%s: expected [%s] in the output, got %r\n%s" % (what, exp, got, text), witness=what, replay_case=rc)
            elif got[1].count("[") != 1 and read != "attr":
                res.violate("resolution", "%s: read site rendered more than once: %r" % (what, got[1]), replay_case=rc)
        if kw != passed:
            res.violate("context-mutated", "%s: the dict given to render was changed: %r" % (what, kw), replay_case=rc)
        if len(sites) >= 2 or not sites:
            res.nontrivial("c04", sites, read, strict, li)
    res.sample = {"binding_sites": case["items"][0][0], "read_site": case["items"][0][1]}


# decoys: the same name bound in a scope that is *not* an enclosing scope of the read site (a local of a helper
# function written in a <% %> block, a lambda parameter, an argument and local of an unrelated def, a class
# attribute, a loop target inside a helper).  By Python's rules none of them is visible at the read site, so the
# expected resolution is unchanged.  "in" places the decoy inside the def/block that holds the read site.
DECOYS = {
    "fnlocal": "<%%\ndef helper_():\n    k_ = lambda q_: q_\n    %(n)s = 'decoy:%(n)s'\n    return k_(%(n)s)\n%%>",
    "lambdaparam": "<%% g_ = lambda %(n)s: %(n)s %%>",
    "otherdef": "<%%def name=\"other_(%(n)s='decoy:%(n)s')\"><%% %(n)s = 'decoy2:%(n)s' %%></%%def>",
    "classattr": "<%%\nclass K_:\n    %(n)s = 'decoy:%(n)s'\n%%>",
    "fnloop": "<%%\ndef helper_():\n    def in_(a_=1, *b_):\n        return a_\n    for %(n)s in ('decoy:%(n)s',):\n        pass\n    return in_(%(n)s)\n%%>",
}
LAYOUTS = [{"nl": nl, "decoy": d, "in": w} for nl, d, w in [
    ("\n", None, False), ("\r\n", None, False), ("\n\n", None, False),
    ("\n", "fnlocal", False), ("\n", "fnlocal", True), ("\r\n", "lambdaparam", False), ("\n", "lambdaparam", True),
    ("\n", "otherdef", False), ("\n", "classattr", False), ("\n", "classattr", True), ("\n", "fnloop", False), ("\r\n", "fnloop", True),
]]


# ------------------------------------------------------------------ defs shadowing defs
SHADOWING = [
    # (name, template, expected output with whitespace removed)
    ("nested def shadows the top-level def of the same name inside its enclosing def",
     '<%def name="f()">top-f</%def><%def name="outer()"><%def name="f()">nested-f</%def>[${f()}]</%def>${outer()}|${f()}', "[nested-f]|top-f"),
    ("two levels down the nearest enclosing definition is seen",
     '<%def name="f()">top-f</%def><%def name="a()"><%def name="f()">a-f</%def><%def name="b()">(${f()})</%def>[${b()}]</%def>${a()}/${f()}', "[(a-f)]/top-f"),
    ("nested def with another signature than the top-level one",
     '<%def name="f()">top-f</%def><%def name="outer()"><%def name="f(n, *, k=2)">nested-${n}-${k}</%def>[${f(1, k=3)}]</%def>${outer()}|${f()}', "[nested-1-3]|top-f"),
    ("nested def in an anonymous block shadows the top-level def",
     '<%def name="f()">top-f</%def><%block><%def name="f()">blk-f</%def>[${f()}]</%block>', "[blk-f]"),  # (what f means AFTER the block is not asserted)
    ("nested def shadows a named block of the same name",
     '<%block name="f">blockf</%block><%def name="outer()"><%def name="f()">nested-f</%def>[${f()}]</%def>${outer()}', "blockf[nested-f]"),
    ("buffered nested def shadows the top-level def, used in a concatenation; a plain one through capture",
     '<%def name="f()">top-f</%def><%def name="g()">top-g</%def><%def name="outer()"><%def name="f()" buffered="True">nested-f</%def><%def name="g()">nested-g</%def>'
     '[${"<" + f() + ">"}${capture(g)}]</%def>${outer()}|${f()}${g()}', "[<nested-f>nested-g]|top-ftop-g"),
    ("nested def is the target of a call with content",
     '<%def name="f()">top-f(${caller.body()})</%def><%def name="outer()"><%def name="f()">nested-f(${caller.body()})</%def><%call expr="f()">B</%call></%def>${outer()}|<%call expr="f()">C</%call>',
     "nested-f(B)|top-f(C)"),
    ("a def argument shadows the top-level def of that name", '<%def name="f()">top-f</%def><%def name="g(f)">[${f}]</%def>${g("arg")}|${f()}', "[arg]|top-f"),
]


def run_shadowing(res):
    T = _st["Template"]
    for name, text, exp in SHADOWING:
        for strict in (False, True):
            res.evaluations += 1
            res.count("shadowing_checked")
            try:
                got = "".join(T(text, strict_undefined=strict).render_unicode().split())
            except Exception as e:
                got = "%s: %s" % (type(e).__name__, e)
            if got != exp:
                res.violate("def-shadowing", "%s (strict_undefined=%s): template %r rendered %r, expected %r" % (name, strict, text, got, exp))
        res.nontrivial("shadow", name)


# ------------------------------------------------------------------ the body arguments of a call
_SHOW = '<%def name="show(a)">${"U" if a is UNDEFINED else a}:${caller.body(v="in")}</%def>'
CALL_BODY_ARGS = [
    # (name, template, expected (whitespace removed) without strict_undefined, expected under strict_undefined); rendered with v='CTX'
    # args= of a call binds names INSIDE its body; the call expression is written outside it and reads the enclosing scope
    ("call expression reads the name its body takes as an argument", _SHOW + '<%call expr="show(v)" args="v">[${v}]</%call>', "CTX:[in]", "CTX:[in]"),
    ("the same through the <%self:def> spelling", _SHOW + '<%self:show a="${v}" args="v">[${v}]</%self:show>', "CTX:[in]", "CTX:[in]"),
    ("after the call the name means what it meant before", _SHOW + '<%call expr="show(v)" args="v">[${v}]</%call>|${v}', "CTX:[in]|CTX", "CTX:[in]|CTX"),
    ("inside a def whose own argument has that name", _SHOW + '<%def name="o(v)"><%call expr="show(v)" args="v">[${v}]</%call></%def>${o("ARG")}', "ARG:[in]", "ARG:[in]"),
    ("inside a def, the name coming from the context", _SHOW + '<%def name="o()"><%call expr="show(v)" args="v">[${v}]</%call></%def>${o()}', "CTX:[in]", "CTX:[in]"),
    ("the name assigned in the body before the call", "<% v = 'PG' %>" + _SHOW + '<%call expr="show(v)" args="v">[${v}]</%call>', "PG:[in]", "PG:[in]"),
    ("a module-level name", "<%! v = 'MOD' %>" + _SHOW + '<%call expr="show(v)" args="v">[${v}]</%call>', "MOD:[in]", "MOD:[in]"),
    ("a loop target", _SHOW + '\n% for v in ("L1", "L2"):\n<%call expr="show(v)" args="v">[${v}]</%call>\n% endfor\n', "L1:[in]L2:[in]", "L1:[in]L2:[in]"),
    ("a name that is nowhere", '<%def name="show(a)">${"U" if a is UNDEFINED else a}:${caller.body(nowhere="in")}</%def><%call expr="show(nowhere)" args="nowhere">[${nowhere}]</%call>',
     "U:[in]", "NameError: 'nowhere' is not defined"),
    ("a nested call whose expression reads the outer call's body argument",
     _SHOW + '<%def name="w()">${caller.body(v="outer")}</%def><%call expr="w()" args="v"><%call expr="show(v)" args="v">[${v}]</%call></%call>', "outer:[in]", "outer:[in]"),
    ("an expression inside a keyword of the call", _SHOW + '<%call expr="show(a=v.lower())" args="v">[${v}]</%call>', "ctx:[in]", "ctx:[in]"),
]


def run_call_body_args(res):
    T = _st["Template"]
    for name, text, exp, exp_strict in CALL_BODY_ARGS:
        for strict in (False, True):
            res.evaluations += 1
            res.count("call_body_args_checked")
            try:
                got = "".join(T(text, strict_undefined=strict).render_unicode(v="CTX").split())
            except Exception as e:
                got = "%s: %s" % (type(e).__name__, e)
            want = exp_strict if strict else exp
            if got != want:
                res.violate("call-body-argument-scope", "%s (strict_undefined=%s): template %r rendered %r, expected %r" % (name, strict, text, got, want))
        res.nontrivial("call-body-args", name)


# ------------------------------------------------------------------ imported defs named like attributes of the namespace object
NS_ATTR_NAMES = ["uri", "filename", "name", "template", "module", "cache", "attr", "inherits", "callables", "plain_"]


def run_import_attr_names(res):
    """a def brought in by <%namespace import=...> is that def, also when it is named like an attribute of the
    Namespace object that delivers it (uri, name, cache, ...): with import="*" and with the def named explicitly"""
    L = _st["TemplateLookup"]
    for strict in (False, True):
        lk = L(strict_undefined=strict)
        lk.put_string("ns.html", "".join('<%%def name="%s()">DEF-%s</%%def>' % (n, n) for n in NS_ATTR_NAMES))
        for n in NS_ATTR_NAMES:
            for how, imp in (("star", "*"), ("explicit", n), ("explicit-list", "plain_, " + n)):
                res.evaluations += 1
                res.count("import_attr_names_checked")
                text = '<%%namespace file="ns.html" import="%s"/>[${%s()}]<%%def name="d()">(${%s()})</%%def>${d()}' % (imp, n, n)
                lk.put_string("main_%s_%s.html" % (how, n), text)
                try:
                    got = lk.get_template("main_%s_%s.html" % (how, n)).render_unicode()
                except Exception as e:
                    got = "%s: %s" % (type(e).__name__, e)
                want = "[DEF-%s](DEF-%s)" % (n, n)
                if got != want:
                    fid = None
                    if how != "star" and n != "plain_" and got.startswith("TypeError: ") and got.endswith("object is not callable"):
                        fid = "C04/explicit-import-of-def-named-like-namespace-attribute"
                    res.violate("imported-def-shadowed-by-namespace-attribute-" + how, "strict_undefined=%s: template %r (ns.html defines a def %s) rendered %r, expected %r" % (strict, text, n, got, want),
                                finding=fid, witness='<%namespace file="ns.html" import="name"/>${name()}: the imported name is the Namespace attribute (a str), not the def')
            res.nontrivial("import-attr-name", n, strict)


# ------------------------------------------------------------------ isolation
def run_isolation(res):
    L = _st["TemplateLookup"]
    lk = L()
    lk.put_string("inc.html", "{inc:${x}|${sorted(context.kwargs.items())}}")
    lk.put_string("base.html", "{base:${x}}${next.body()}")
    lk.put_string(
        "main.html",
        '<%inherit file="base.html"/>'
        "<% x = 'body:x' %><% m['k'] = 'changed-local-copy' if False else m['k'] %>"
        "{body:${x}}<%include file=\"inc.html\"/>${d()}{kw:${sorted(context.kwargs.items())}}"
        '<%def name="d()"><% x = \'def:x\' %>{def:${x}|${sorted(context.kwargs.items())}}</%def>'
        "<% context._data['x'] = 'poked' if False else context._data['x'] %>",
    )
    m = {"k": "v"}
    kw = {"x": "ctx:x", "m": m, "lst": [1, 2]}
    before = copy.deepcopy(kw)
    res.evaluations += 1
    out = lk.get_template("main.html").render_unicode(**kw)
    res.count("context_isolation_checked")
    items = "[('lst', [1, 2]), ('m', {'k': 'v'}), ('x', 'ctx:x')]"
    exp = "{base:ctx:x}{body:body:x}{inc:ctx:x|%s}{def:def:x|%s}{kw:%s}" % (items, items, items)
    if out != exp:
        res.violate("context-isolation", "rendered %r, expected %r" % (out, exp))
    if kw != before:
        res.violate("context-mutated", "render changed its arguments: %r" % kw)
    res.nontrivial("iso", 1)
    # context.kwargs must be a copy: changing it must not leak
    lk.put_string("k.html", "<% context.kwargs['x'] = 'leak' %>${x}|${context.kwargs['x']}|${context.get('x')}")
    res.evaluations += 1
    out = lk.get_template("k.html").render_unicode(x="orig")
    res.count("context_isolation_checked")
    if out != "orig|orig|orig":
        res.violate("kwargs-live", "context.kwargs handed out live data: %r" % out)
    res.nontrivial("iso", 2)


# ------------------------------------------------------------------ reserved names
def run_reserved(res):
    T = _st["Template"]
    ex = _st["exceptions"]
    rt = _st["runtime"]
    from io import StringIO

    names = ["context", "UNDEFINED", "STOP_RENDERING", "loop"]
    t = T('body<%def name="d()">def</%def>')
    for nm in names:
        entries = {
            "render": lambda: t.render(**{nm: 1}),
            "render_unicode": lambda: t.render_unicode(**{nm: 1}),
            "render_context": lambda: t.render_context(rt.Context(StringIO(), **{nm: 1})),
            "get_def.render": lambda: t.get_def("d").render(**{nm: 1}),
            "get_def.render_unicode": lambda: t.get_def("d").render_unicode(**{nm: 1}),
        }
        for ename, fn in entries.items():
            res.evaluations += 1
            res.count("reserved_render_checked")
            try:
                fn()
                res.violate("reserved-name-accepted", "%s(%s=1) did not raise NameConflictError" % (ename, nm), witness="%s %s" % (ename, nm))
            except ex.NameConflictError:
                pass
            except Exception as e:
                res.violate("reserved-name-wrong-exception", "%s(%s=1) raised %s: %s" % (ename, nm, type(e).__name__, e))
            res.nontrivial("rr", nm, ename)
        forms = {
            "assign": "<%% %s = 1 %%>" % nm,
            "augassign": "<%% %s += 1 %%>" % nm,
            "for-target": "%% for %s in (1,):\nx\n%% endfor\n" % nm,
            "import-as": "<%% import os as %s %%>" % nm,
            "with-as": "<%%\nimport contextlib\nwith contextlib.nullcontext() as %s:\n    pass\n%%>" % nm,
            "except-as": "<%%\ntry:\n    1 // 0\nexcept Exception as %s:\n    pass\n%%>" % nm,
            "page-arg": '<%%page args="%s"/>' % nm,
            "def-in-block": "<%%\ndef %s():\n    pass\n%%>" % nm,
        }
        for fname, text in forms.items():
            res.evaluations += 1
            res.count("reserved_assign_checked")
            try:
                T(text)
                res.violate("reserved-name-assignable", "template %r compiled; binding %r by %s must raise NameConflictError" % (text, nm, fname), witness="%s %s" % (fname, nm))
            except ex.NameConflictError:
                pass
            except Exception as e:
                res.violate("reserved-name-wrong-exception", "template %r raised %s: %s" % (text, type(e).__name__, e), witness="%s %s" % (fname, nm))
            res.nontrivial("ra", nm, fname)
    # a context variable named like a filter flag, read as the argument of a filter call
    res.evaluations += 1
    try:
        out = T("<%!\ndef mkf(v):\n    return lambda s: s + str(v)\n%>${'a' | n,mkf(h)}").render_unicode(h="H")
    except Exception as e:
        out = "%s: %s" % (type(e).__name__, e)
    if out != "aH":
        res.violate("filter-argument-named-like-flag", "${'a' | n,mkf(h)} with h='H' in the context gave %r, expected 'aH'" % out,
                    finding="C04/filter-arg-named-like-flag" if out.startswith("NameError") and "'h'" in out else None, witness="${'a' | n,mkf(h)} rendered with h='H'")
    # the UNDEFINED singleton: the same object everywhere, false in a boolean context, an error when written
    res.evaluations += 1
    try:
        out = T("${'T' if nosuch_a else 'F'}|${nosuch_a is UNDEFINED}|${nosuch_a is nosuch_b}<%def name=\"d()\">${nosuch_a is UNDEFINED}</%def>|${d()}").render_unicode()
    except Exception as e:
        out = "%s: %s" % (type(e).__name__, e)
    if out != "F|True|True|True":
        res.violate("undefined-singleton", "unbound names gave %r, expected 'F|True|True|True' (false, identical to UNDEFINED in body and def)" % out)
    try:
        out = T("${nosuch_a}").render_unicode()
        res.violate("undefined-written", "writing an unbound name rendered %r instead of raising NameError" % out)
    except NameError:
        pass
    except Exception as e:
        res.violate("undefined-written", "writing an unbound name raised %s: %s" % (type(e).__name__, e))
    # a name given to render() resolves to the value given, whatever that value is: None and other false values
    # are values, not "undefined" - with and without strict_undefined, read as a name or through the context
    for val in (None, 0, "", False, [], 0.0):
        for strict in (False, True):
            res.evaluations += 1
            res.count("falsy_context_values")
            text = "${v is UNDEFINED}|${repr(v)}|${repr(context['v'])}|${repr(context.get('v', 'dflt'))}|${'v' in context.keys()}<%def name=\"d()\">${repr(v)}</%def>|${d()}"
            try:
                out = T(text, strict_undefined=strict).render_unicode(v=val)
            except Exception as e:
                out = "%s: %s" % (type(e).__name__, e)
            exp = "False|%r|%r|%r|True|%r" % (val, val, val, val)
            if out != exp:
                res.violate("falsy-context-value", "render(v=%r), strict_undefined=%s: template %r gave %r, expected %r" % (val, strict, text, out, exp))
    # with enable_loop=False, `loop` is an ordinary name
    res.evaluations += 1
    try:
        out = T("<% loop = 3 %>${loop}", enable_loop=False).render_unicode()
        out2 = T("${loop}", enable_loop=False).render_unicode(loop="L")
        if (out, out2) != ("3", "L"):
            res.violate("loop-not-ordinary", "enable_loop=False: %r %r" % (out, out2))
    except Exception as e:
        res.violate("loop-not-ordinary", "enable_loop=False: %s: %s" % (type(e).__name__, e))


def gen_cases(tier, seed):
    yield {"kind": "isolation"}
    yield {"kind": "shadowing"}
    yield {"kind": "reserved"}
    kmax = 3 if tier == "quick" else 5
    items = []
    for k in range(0, kmax + 1):
        for sites in itertools.combinations(SITES, k):
            for read in READS:
                if not applicable(sites, read):
                    continue
                for strict in (False, True):
                    for li in range(len(LAYOUTS)):
                        items.append([list(sites), read, strict, li])
                        if len(items) >= 60:
                            yield {"kind": "resolution", "items": items}
                            items = []
    if items:
        yield {"kind": "resolution", "items": items}


def run_case(case):
    res = common.CaseResult()
    k = case["kind"]
    if k == "resolution":
        run_resolution(case, res)
    elif k == "isolation":
        run_isolation(res)
    elif k == "shadowing":
        run_shadowing(res)
        run_call_body_args(res)
        run_import_attr_names(res)
    elif k == "reserved":
        run_reserved(res)
    return res

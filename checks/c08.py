"""C08 - a template means the same on every compilation and rendering path.

Pure differential, no model: one generated template (from the generators of C01, C03, C05 and a
generator aimed at code whose generation iterates over sets) is rendered through
  string / file / module directory (first load, reload, reload in fresh processes) / ModuleTemplate /
  render / render_unicode / render_context / the mako-render command / get_def(name).render()
and all outputs must be equal; Template.source must be the template's own text, Template.code must
carry its own uri/filename metadata, has_def/list_defs/get_def must agree.  Fresh child processes
repeat string / file / module-reload under PYTHONHASHSEED 0, 1, 2, 3 and random.  Lookup options:
module_directory, modulename_callable, URI spellings, and URIs that differ only in non-word characters.
"""
import gc
import io
import json
import os
import shutil
import subprocess
import sys
import tempfile

from mk import common, tdoc
from checks import c01, c05

PROPERTY = "C08"
LEVEL = "exploration"
RULE = (
    "templates: C05 documents (defs, calls with content, filters), C01 documents (Unicode text and escapes), "
    "'set-order' templates (many context names, defs whose defaults call builtins / read module names, namespaces "
    "with import, nested defs) and defs-only templates for get_def; each x 10 in-process paths x 5 hash seeds in "
    "child processes; lookup variants {module_directory, modulename_callable, 4 URI spellings, 3 URIs differing "
    "only in punctuation}. distinct = by template text; non-trivial = the template has at least one def or "
    "non-ASCII character and all paths produced output."
)
RULE += ' added since: legacy and wide source encodings (utf-16/32) on file paths, twin templates surviving garbage collection of the other, mako-render failures, sibling URIs compared by full output / list_defs / get_def(..).render/.source/.code, templates printing their own local.uri and self.uri. defs of inheriting templates rendered alone through get_def() and inside a full render, on four lookup paths. preprocessor= (list and single callable) on the string, file, module-directory and lookup paths against the preprocessed text compiled directly; lexer_cls= subclass used exactly once. strict_undefined templates with several missing names and sibling nested defs whose defaults call one another, compared across hash seeds including the NameError text. every option TemplateLookup forwards (17, one at a time, plus module_writer) probed by behaviour on five routes: direct Template, lookup from file, lookup with module_directory, put_string, <%include> target.'
ASSUMPTIONS = ["mako-render is driven without --output-encoding (it crashes with that option, outside the statement)",
               "context values are strings so that the command line can pass them"]
MIN_NONTRIVIAL = 100
RULE += " Template.code compared with the text of the module file wherever one exists; CRLF templates with backslash-continued control lines."
RULE += " defs printing the order of context.keys() for names assigned in the body, across hash seeds."
RULE += " mako-render started inside the template directory (bare name, ./name, standard input, --template-dir .) for a template that inherits, includes and uses a namespace."
REQUIRED_COUNTERS = ["templates", "paths_compared", "hash_seed_children", "cmdline_runs", "get_def_compared", "module_template_renders", "lookup_variants", "source_checks", "inheriting_get_def_compared", "preprocessor_paths_compared", "lookup_option_routes", "cmdline_directory_routes", "code_compared_with_module_file"]
SHARDS = {"quick": 16, "thorough": 32}

_st = {}
# (values as a command line carries them: text; one of them contains and ends with "=", like a query string)
CTX = {"x": "X", "y": "Y=1&z=", "flag1": "1", "flag0": "", "cv": "CV", "zctx": "ZC"}
CHILD = os.path.join(common.VERIF, "mk", "c08_child.py")
SEEDS = ["0", "1", "2", "3", "random"]


def setup_worker():
    from mako import cmd, compat, runtime
    from mako.lookup import TemplateLookup
    from mako.template import ModuleTemplate, Template
    from mako.lexer import Lexer

    _st["Lexer"] = Lexer
    c01.setup_worker()
    c05.setup_worker()
    _st.update(Template=Template, ModuleTemplate=ModuleTemplate, TemplateLookup=TemplateLookup, runtime=runtime, cmd=cmd, compat=compat,
               tmp=tempfile.mkdtemp(prefix="c08-"), n=0)
    import atexit

    atexit.register(lambda: shutil.rmtree(_st["tmp"], ignore_errors=True))


# ------------------------------------------------------------------ generators
def gen_setorder(r, strict=False):
    names = ["x", "y", "cv", "flag1", "flag0"]
    parts = ["<%!\nimport os\nMODV = 'mv'\ndef helper(v):\n    return 'h(' + str(v) + ')'\n%>"]
    used = r.sample(names, r.randint(2, 5))
    if strict:
        # several names that nothing defines, rendered with strict_undefined: WHICH one the NameError names must not
        # depend on the hash seed or the path either
        missing = ["m_" + "".join(r.choice("abcdefghijklmnopqrstuvwxyz") for _ in range(r.randint(1, 6))) for _ in range(r.randint(2, 5))]
        used = used + missing
        r.shuffle(used)
    parts.append("BODY[" + "|".join("${%s}" % n for n in used) + "]")
    if not strict and r.random() < 0.6:
        # names assigned in the body are handed on to the defs called by name: the order in which a def finds them
        # in its context (context.keys()) is part of what it can print
        lv = sorted({"lv_" + "".join(r.choice("abcdefghijklmnopqrstuvwxyz") for _ in range(r.randint(1, 5))) for _ in range(r.randint(3, 6))})
        r.shuffle(lv)
        parts.append("<% " + "; ".join("%s = %d" % (n, i) for i, n in enumerate(lv)) + " %>")
        parts.append('<%def name="seen()">K${[k for k in context.keys() if k.startswith("lv_")]}</%def>${seen()}')
    if r.random() < 0.5:
        # sibling defs nested in one def, the default of one calling another: they must be defined in an order that
        # does not vary (alphabetical, so that this one works)
        a, b, c = sorted("n" + "".join(r.choice("abcdefghijklmnopqrstuvwxyz") for _ in range(3)) + str(k) for k in range(3))
        parts.append('<%%def name="sib()"><%%def name="%s()">SA</%%def><%%def name="%s(v=%s())">SB(${v})</%%def><%%def name="%s(w=%s())">SC(${w})</%%def>${%s()}</%%def>${sib()}'
                     % (a, b, a, c, b, c))
    ndefs = r.randint(1, 5)
    for i in range(ndefs):
        dflt = r.choice(["len(MODV)", "str(3)", "dict(a=1)", "helper(MODV)", "sorted({3, 1, 2})", "max(1, 2)", "repr('q')", "os.sep"])
        body = "D%d(${a}|${%s}|${helper(%s)})" % (i, r.choice(names), r.choice(names))
        nested = ""
        if r.random() < 0.4:
            nested = '<%%def name="in%d(b=%s)">IN%d(${b}${%s})</%%def>${in%d()}' % (i, r.choice(["len('ab')", "abs(-2)", "MODV"]), i, r.choice(names), i)
        parts.append('<%%def name="sd%d(a=%s)">%s%s</%%def>' % (i, dflt, body, nested))
    calls = ["${sd%d()}" % i for i in range(ndefs)]
    r.shuffle(calls)
    parts.append("".join(calls))
    if r.random() < 0.5:
        parts.append('<%block name="blk">BLK(${' + r.choice(names) + "})</%block>")
    return "".join(parts)


def gen_defsonly(r):
    parts = ["<%!\nMODV = 'mv'\n%>"]
    n = r.randint(1, 4)
    for i in range(n):
        parts.append('<%%def name="gd%d(a=%s, b=\'B\')">G%d[${a}|${b}|${%s}]%s</%%def>' % (
            i, r.choice(["'A'", "len(MODV)", "str(1)"]), i, r.choice(["x", "y", "cv"]),
            "${gd%d()}" % (i + 1) if i + 1 < n and r.random() < 0.5 else ""))
    return "".join(parts), ["gd%d" % i for i in range(n)]


def gen_template(r):
    k = r.random()
    if r.random() < 0.05:
        # CRLF line ends and a control line continued with a backslash: the generated module then holds a raw CR
        nl = "\r\n"
        return "crlf-continued", ("top ${x}" + nl + "% if flag1 or \\" + nl + "    flag0:" + nl + "yes ${y}" + nl + "% endif" + nl + "% for i_ in (1, \\" + nl + " 2):" + nl
                                  + "${i_}" + nl + "% endfor" + nl + "end"), []
    if k < 0.35:
        doc = c05.gen_doc(r, 3, allow_wrong=False)
        m = tdoc.Model(doc, {"x": "X", "y": "Y", "flag1": "1", "flag0": ""})
        try:
            m.render()
        except tdoc.TooLarge:
            return gen_template(r)
        except Exception:
            pass
        return "c05", tdoc.emit(doc), []
    if k < 0.55:
        src, expected, kinds = c01.gen_doc(r)
        # a leading U+FEFF written to a file IS a byte-order mark and is consumed as such: not a path difference
        src = src.lstrip("\ufeff")
        if c01._coding.match(src):
            return gen_template(r)
        return "c01", src, []
    if k < 0.85:
        if r.random() < 0.25:
            return "setorder-strict", gen_setorder(r, strict=True), []
        return "setorder", gen_setorder(r), []
    text, defs = gen_defsonly(r)
    return "defsonly", text, defs


# ------------------------------------------------------------------ one template through all paths
def outcome(fn):
    try:
        return ("out", fn())
    except Exception as e:
        return ("exc", "%s: %s" % (type(e).__name__, str(e)[:200]))


def norm_exc(o):
    # messages may embed module names / object addresses that legitimately differ between paths
    if o[0] == "exc":
        if o[1].startswith("NameError:"):
            return ("exc", o[1][:200])  # (names no address or module; WHICH name is missing is part of the outcome)
        return ("exc", o[1].split(":")[0])
    return o


ENC_SAMPLES = {
    "latin-1": "café ü ÿ",
    "iso-8859-15": "€uro œ",
    "cp1251": "привет",
    "koi8-r": "мир",
    "shift_jis": "日本語ソ",   # the second byte of 'ソ' is 0x5C
    "euc-jp": "日本語",
    "cp1252": "“q” ž",
}


WIDE = ["utf-16", "utf-32", "utf-16-le"]


def wide_module_file(enc, name, o):
    """known finding: the module file of a template stored in UTF-16/32 is written in that encoding, which no
    Python source file may use"""
    if enc in WIDE and name.startswith("module") and o[0] == "exc" and o[1].startswith("SyntaxError"):
        return "C08/wide-encoding-module-file"
    return None


def pick_encoding(r, kind, text):
    """-> (text, file encoding, input_encoding argument or None).  Besides UTF-8, the template file may be
    stored in a legacy encoding, declared either by the input_encoding argument or by a magic comment."""
    k = r.random()
    if k < 0.6:
        return text, "utf-8", None
    if k < 0.63:
        enc = r.choice(WIDE)
        return text, enc, enc
    enc = r.choice(sorted(ENC_SAMPLES))
    if kind in ("setorder", "defsonly"):
        sample = ENC_SAMPLES[enc]
        text = text.replace("BODY[", "BODY" + sample + "[").replace("(${a}", "(" + sample + "${a}").replace("[${a}", "[" + sample + "${a}")
    try:
        text.encode(enc)
    except UnicodeEncodeError:
        return text, "utf-8", None
    if k < 0.8:
        return text, enc, enc
    return "## -*- coding: %s -*-\n" % enc + text, enc, None


def run_template(kind, text, defs, d, res, items, enc="utf-8", input_encoding=None):
    T0 = _st["Template"]
    rt = _st["runtime"]
    res.count("templates")
    if enc != "utf-8":
        res.count("templates_in_legacy_encoding")
    fn = os.path.join(d, "t.html")
    with open(fn, "w", encoding=enc, newline="") as f:
        f.write(text)

    strict = kind.endswith("-strict")

    def T(*a, **kw):
        if "filename" in kw and input_encoding:
            kw["input_encoding"] = input_encoding
        if strict:
            kw["strict_undefined"] = True
        return T0(*a, **kw)

    md = os.path.join(d, "mods")
    rc = {"kind": "one", "text": text, "defs": defs, "enc": enc, "input_encoding": input_encoding, "strict": strict}
    outs = {}
    tpls = {}

    def build(name, ctor):
        try:
            tpls[name] = ctor()
        except Exception as e:
            outs[name] = ("exc", "%s: %s" % (type(e).__name__, str(e)[:200]))

    build("string", lambda: T(text))
    build("file", lambda: T(filename=fn))
    build("module-first", lambda: T(filename=fn, module_directory=md))
    build("module-reload", lambda: T(filename=fn, module_directory=md))
    for name, t in tpls.items():
        outs[name] = outcome(lambda: t.render_unicode(**CTX))
    # render / render_context on the string template
    if "string" in tpls:
        t = tpls["string"]
        outs["render"] = outcome(lambda: t.render(**CTX))

        def via_context():
            buf = io.StringIO()
            t.render_context(rt.Context(buf, **CTX))
            return buf.getvalue()

        outs["render_context"] = outcome(via_context)
    # ModuleTemplate from the generated module file
    if "module-first" in tpls:
        def via_module_template():
            path = tpls["module-first"].module.__file__
            mod = _st["compat"].load_module("verif_c08_mt_%d" % _st["n"], path)
            mt = _st["ModuleTemplate"](mod, module_filename=path, template_filename=fn)
            return mt.render_unicode(**CTX)

        outs["ModuleTemplate"] = outcome(via_module_template)
        res.count("module_template_renders")
    # the mako-render command
    if not input_encoding and not strict:  # the command has no option to name the input encoding (or strict_undefined)
        ofile = os.path.join(d, "cmd.out")

        def via_cmd():
            argv = []
            for k, v in CTX.items():
                argv += ["--var", "%s=%s" % (k, v)]
            argv += ["--output-file", ofile, fn]
            old = sys.stderr
            sys.stderr = io.StringIO()
            try:
                _st["cmd"].cmdline(argv)
            except SystemExit:
                err = sys.stderr.getvalue()
                raise RuntimeError(err.strip().split("\n")[-1] if err.strip() else "exit")
            finally:
                sys.stderr = old
            with open(ofile, encoding=None, newline="") as f:
                return f.read()

        o = outcome(via_cmd)
        if o[0] == "exc" and o[1].startswith("RuntimeError: "):
            o = ("exc", o[1][len("RuntimeError: "):])
        outs["mako-render"] = o
        res.count("cmdline_runs")
    res.evaluations += len(outs)
    res.count("paths_compared", len(outs))
    ref = norm_exc(outs.get("string", ("exc", "no string template")))
    for name, o in outs.items():
        if name == "mako-render" and o[0] == "exc" and ref[0] == "exc":
            continue  # the command reports the failure as text on stderr and exits: failing is what is compared
        if norm_exc(o) != ref:
            fid = wide_module_file(enc, name, o)
            res.violate("paths-differ-" + name, "template %r (file encoding %s)\npath string gives %r\npath %s gives %r" % (text, enc, outs.get("string"), name, o),
                        finding=fid, witness="template file stored as UTF-16/UTF-32 (input_encoding names it), module_directory set: SyntaxError on import of the module file" if fid else None, replay_case=rc)
    # preprocessor= and lexer_cls=: the text the template is compiled from is preprocessor(text) on every path (one
    # callable or a list applied in order), and a Lexer subclass handed in is the one that parses it
    if not input_encoding and enc == "utf-8" and ref[0] == "out":
        pp1 = lambda t_: t_ + "\n<PP1>"  # noqa: E731
        pp2 = lambda t_: t_ + "<PP2>"  # noqa: E731
        used = []

        class CountingLexer(_st["Lexer"]):
            def parse(self):
                used.append(1)
                return super().parse()

        ref2 = norm_exc(outcome(lambda: T(text + "\n<PP1><PP2>").render_unicode(**CTX)))
        md2 = os.path.join(d, "mods-pp")
        pouts = {
            "pp-string": outcome(lambda: T(text, preprocessor=[pp1, pp2]).render_unicode(**CTX)),
            "pp-file": outcome(lambda: T(filename=fn, preprocessor=[pp1, pp2]).render_unicode(**CTX)),
            "pp-module-first": outcome(lambda: T(filename=fn, module_directory=md2, preprocessor=[pp1, pp2]).render_unicode(**CTX)),
            "pp-module-reload": outcome(lambda: T(filename=fn, module_directory=md2, preprocessor=[pp1, pp2]).render_unicode(**CTX)),
            "pp-lookup": outcome(lambda: _st["TemplateLookup"](directories=[d], preprocessor=[pp1, pp2]).get_template("t.html").render_unicode(**CTX)),
            "pp-single-callable": outcome(lambda: T(text, preprocessor=lambda t_: pp2(pp1(t_))).render_unicode(**CTX)),
        }
        for name, o in pouts.items():
            res.count("preprocessor_paths_compared")
            if norm_exc(o) != ref2:
                res.violate("paths-differ-" + name, "template %r with preprocessor [append '\\n<PP1>', append '<PP2>']\npath %s gives %r\nthe preprocessed text "
                            "compiled directly gives %r" % (text, name, o, ref2), replay_case=rc)
        o = outcome(lambda: T(text, lexer_cls=CountingLexer).render_unicode(**CTX))
        if norm_exc(o) != ref or len(used) != 1:
            res.violate("paths-differ-lexer-cls", "template %r with lexer_cls=<subclass of Lexer>: %r (string path %r), subclass parse() called %d times"
                        % (text, o, ref, len(used)), replay_case=rc)
    # source / code / defs.  A further Template for the same file that is dropped again must not take the
    # others' source away (the registry of module infos is keyed by a name they share)
    try:
        extra = T(filename=fn)
        del extra
        gc.collect()
        res.count("dropped_twin_templates")
    except Exception:
        pass
    for name, t in tpls.items():
        res.count("source_checks")
        try:
            if t.source != text:
                res.violate("source-differs", "path %s: Template.source is %r, text is %r" % (name, t.source[:200], text[:200]), replay_case=rc)
            code = t.code
            if name != "string" and repr(fn) not in code:
                res.violate("code-metadata", "path %s: Template.code lacks the template filename" % name, replay_case=rc)
            mf = getattr(t.module, "__file__", None)
            if mf and os.path.isfile(mf):
                # a module file exists: Template.code is its text, character for character
                res.count("code_compared_with_module_file")
                with open(mf, "rb") as f_:
                    raw = f_.read()
                try:
                    ftext = raw.decode(getattr(t.module, "_source_encoding", "utf-8") or "utf-8")
                except Exception:
                    ftext = None
                if ftext is not None and code != ftext:
                    at = next((i_ for i_, (a_, b_) in enumerate(zip(code, ftext)) if a_ != b_), min(len(code), len(ftext)))
                    res.violate("code-differs-from-module-file", "path %s: Template.code differs from the text of its module file at offset %d: %r vs %r" % (
                        name, at, code[max(0, at - 30):at + 30], ftext[max(0, at - 30):at + 30]), replay_case=rc)
            if "_template_uri = %r" % t.uri not in code:
                res.violate("code-metadata", "path %s: Template.code lacks its uri %r" % (name, t.uri), replay_case=rc)
        except Exception as e:
            res.violate("source-code-raises", "path %s: %s: %s" % (name, type(e).__name__, e), replay_case=rc)
    deflists = {name: (sorted(t.list_defs()), [t.has_def(x) for x in defs + ["nosuch"]]) for name, t in tpls.items()}
    if len({json.dumps(v) for v in deflists.values()}) > 1:
        res.violate("defs-differ", "template %r: list_defs/has_def by path: %r" % (text, deflists), replay_case=rc)
    # get_def(name).render() vs a wrapper template calling the def
    for dn in defs:
        res.count("get_def_compared")
        for name, t in tpls.items():
            dsrc = outcome(lambda: t.get_def(dn).source)
            if dsrc != ("out", text):
                res.violate("def-source-differs", "template %r path %s: get_def(%r).source is %r" % (text, name, dn, dsrc[1][:80] if dsrc[0] == "out" else dsrc), replay_case=rc)
            a = norm_exc(outcome(lambda: t.get_def(dn).render_unicode(**CTX)))
            b = norm_exc(outcome(lambda: T(text + "${%s()}" % dn).render_unicode(**CTX)))
            if a != b:
                res.violate("get-def-differs", "template %r path %s: get_def(%r).render gives %r, calling it from a wrapper gives %r" % (text, name, dn, a, b), replay_case=rc)
    items.append({"strict": strict, "text": text, "file": fn, "moddir": md, "ctx": CTX, "input_encoding": input_encoding, "enc": enc, "ref": outs.get("string"), "defs": deflists.get("string", [[], []])[0]})
    if ref[0] == "out" and (defs or "<%def" in text or any(ord(c) > 127 for c in text)):
        res.nontrivial("c08", text)
    if res.sample is None:
        res.sample = {"generator": kind, "template": text[:400], "paths": sorted(outs)}


def run_children(items, base, res):
    spec = os.path.join(base, "spec.json")
    with open(spec, "w") as f:
        json.dump({"repo": common.REPO, "items": items}, f)
    for seed in SEEDS:
        env = dict(os.environ, PYTHONHASHSEED=seed, PYTHONDONTWRITEBYTECODE="1")
        p = subprocess.run([sys.executable, CHILD, spec], stdout=subprocess.PIPE, stderr=subprocess.PIPE, text=True, env=env, timeout=600)
        res.count("hash_seed_children")
        try:
            outs = json.loads(p.stdout.strip().splitlines()[-1])
        except Exception:
            res.violate("child-failed", "PYTHONHASHSEED=%s child failed: rc=%s %s" % (seed, p.returncode, p.stderr[-500:]))
            continue
        for item, got in zip(items, outs):
            ref = norm_exc(tuple(item["ref"])) if item["ref"] else None
            for pname, o in got.items():
                res.evaluations += 1
                cur = ("out", o["out"]) if "out" in o else norm_exc(("exc", o["exc"]))
                if ref is not None and cur != ref:
                    res.violate(
                        "hash-seed-or-process-differs-" + pname,
                        "template %r\nin this process: %r\nfresh process, PYTHONHASHSEED=%s, path %s: %r" % (item["text"], item["ref"], seed, pname, o),
                        finding=wide_module_file(item.get("enc"), pname, ("exc", o.get("exc", "")) if "exc" in o else ("out", "")),
                        replay_case={"kind": "one", "text": item["text"], "defs": [], "enc": item.get("enc", "utf-8"), "input_encoding": item.get("input_encoding")},
                    )
                elif "out" in o:
                    if o["defs"] != item["defs"]:
                        res.violate("defs-differ", "template %r: list_defs in child %r vs %r" % (item["text"], o["defs"], item["defs"]))
                    if o["source"] != item["text"]:
                        res.violate("source-differs", "template %r: child path %s source differs" % (item["text"], pname))


# ------------------------------------------------------------------ lookup variants
def run_lookup_variants(r, res):
    L = _st["TemplateLookup"]
    _st["n"] += 1
    d = os.path.join(_st["tmp"], "lk%d" % _st["n"])
    root = os.path.join(d, "root")
    os.makedirs(os.path.join(root, "sub"))
    try:
        texts = {}
        for nm in ("a.html", "a-b.html", "a_b.html", "a.b.html"):
            # each file also has a def of the SAME name with its own signature: get_def(name).render(**data) passes
            # the arguments that signature takes
            sig, body = {"a.html": ("p, q='Q0'", "${p}|${q}"), "a-b.html": ("p, q='Q1'", "${p}|${q}"), "a_b.html": ("q='Q2', r='R2'", "${q}|${r}"),
                         "a.b.html": ("**kw", "${sorted(kw)}")}[nm]
            texts[nm] = "FILE:%s|${x}|" % nm + gen_setorder(r) + '<%%def name="it(%s)">IT@%s(%s)</%%def>' % (sig, nm, body) + "|URI=${local.uri},${self.uri}"
            with open(os.path.join(root, nm), "w") as f:
                f.write(texts[nm])
        called = []

        def mcall(filename, uri):
            called.append((filename, uri))
            return os.path.join(d, "custom", uri.strip("/").replace("/", "__") + ".py")

        variants = {
            "plain": L(directories=[root]),
            "module_directory": L(directories=[root], module_directory=os.path.join(d, "m1")),
            "modulename_callable": L(directories=[root], module_directory=os.path.join(d, "m2"), modulename_callable=mcall),
        }
        for vname, lk in variants.items():
            for uri in ("/a.html", "a.html", "//a.html", "sub/../a.html", "/sub/../a.html"):
                res.evaluations += 1
                res.count("lookup_variants")
                what = "lookup %s get_template(%r)" % (vname, uri)
                # the same text compiled from a string under the same URI: also what it says about its own URI
                # (several spellings share one module file; what a spelling renders must not depend on which came first)
                ref = _st["Template"](texts["a.html"], uri=uri).render_unicode(**CTX)
                try:
                    t = lk.get_template(uri)
                    out = t.render_unicode(**CTX)
                    if out != ref:
                        res.violate("lookup-variant-output", "%s rendered %r, expected %r" % (what, out, ref))
                    if t.source != texts["a.html"]:
                        res.violate("lookup-variant-source", "%s: source differs" % what)
                except Exception as e:
                    res.violate("lookup-variant-raises", "%s raised %s: %s" % (what, type(e).__name__, e))
            # URIs that differ only in non-word characters, side by side
            got = {}
            for nm in ("a-b.html", "a_b.html", "a.b.html"):
                try:
                    got[nm] = lk.get_template("/" + nm)
                except Exception as e:
                    res.violate("lookup-variant-raises", "lookup %s get_template(%r) raised %s: %s" % (vname, nm, type(e).__name__, e))
            for nm, t in got.items():
                res.evaluations += 1
                res.count("lookup_variants")
                bad = []
                try:
                    if t.source != texts[nm]:
                        bad.append("source is that of %r" % [k for k, v in texts.items() if v == t.source])
                    if ("FILE:%s|" % nm) not in t.code:
                        bad.append("code is another template's")
                    out = t.render_unicode(**CTX)
                    if not out.startswith("FILE:%s|" % nm):
                        bad.append("renders %r" % out[:30])
                    else:
                        # the whole output and the def list, against the same text compiled from a string: the
                        # body AND the defs it calls are this template's own
                        ref_t = _st["Template"](texts[nm], uri="/" + nm)
                        exp_out = ref_t.render_unicode(**CTX)
                        if out != exp_out:
                            res.violate("lookup-variant-output", "lookup %s: /%s loaded beside its siblings renders %r, its text alone renders %r" % (vname, nm, out, exp_out))
                        data = {"p": "P", "q": "QQ", "r": "RR", "x": "X"}
                        a = outcome(lambda: t.get_def("it").render_unicode(**data))
                        b = outcome(lambda: ref_t.get_def("it").render_unicode(**data))
                        res.count("get_def_compared")
                        if a != b:
                            res.violate("get-def-differs", "lookup %s: /%s loaded beside its siblings: get_def('it').render(**%r) gives %r, its text alone gives %r" % (vname, nm, data, a, b))
                        # a def reports its own template's text and module
                        dsrc = outcome(lambda: t.get_def("it").source)
                        dcode = outcome(lambda: ("FILE:%s|" % nm) in t.get_def("it").code)
                        if dsrc != ("out", texts[nm]) or dcode != ("out", True):
                            res.violate("def-source-differs", "lookup %s: /%s loaded beside its siblings: get_def('it').source / .code are not this template's (%r, own code: %r)" % (
                                vname, nm, dsrc[1][:60] if dsrc[0] == "out" else dsrc, dcode))
                        if sorted(t.list_defs()) != sorted(ref_t.list_defs()):
                            res.violate("defs-differ", "lookup %s: /%s loaded beside its siblings lists defs %r, its text alone %r" % (vname, nm, sorted(t.list_defs()), sorted(ref_t.list_defs())))
                except Exception as e:
                    bad.append("%s: %s" % (type(e).__name__, e))
                if bad:
                    res.violate(
                        "punctuation-uris-mixed-up", "lookup %s: /%s loaded beside its siblings: %s" % (vname, nm, "; ".join(bad)),
                        finding="C08/module-id-collision", witness="/a-b.html, /a_b.html, /a.b.html in one process: Template.source / .code of one returns another's",
                    )
        if not called:
            res.violate("modulename-callable-unused", "modulename_callable was never called")
        elif not all(os.path.exists(mcall(f, u)) for f, u in called[:1]):
            res.violate("modulename-callable-ignored", "module file not written where modulename_callable said")
        res.nontrivial("lookup-variants", texts["a.html"])
    finally:
        shutil.rmtree(d, ignore_errors=True)


def run_inheriting_get_def(r, res):
    """a def of an INHERITING template rendered alone through get_def(name).render*() writes what the same def writes
    inside a full render of that template (its local/self are the template, parent the inherited one), on every
    compilation path"""
    L = _st["TemplateLookup"]
    _st["n"] += 1
    d = os.path.join(_st["tmp"], "ig%d" % _st["n"])
    root = os.path.join(d, "root")
    os.makedirs(root)
    try:
        k = r.randint(1, 9)
        reads = r.sample(["${local.who()}", "${parent.who()}", "${self.who()}", "${local.uri}", "${parent.uri}", "${local.attr.tone}", "${parent.attr.tone}", "${x}"], r.randint(2, 5))
        mid = r.random() < 0.5
        texts = {
            "base.html": '<%%! tone = "bt" %%><%%def name="who()">base%d</%%def>BASE(${next.body()})' % k,
            "child.html": '<%%inherit file="%s"/><%%! tone = "ct" %%><%%def name="who()">child%d</%%def><%%def name="me()">[me:%s]</%%def>'
                          "CHILD{${self.me()}}" % ("mid.html" if mid else "base.html", k, "|".join(reads)),
        }
        if mid:
            texts["mid.html"] = '<%%inherit file="base.html"/><%%! tone = "mt" %%><%%def name="who()">mid%d</%%def>MID(${next.body()})' % k
        for nm, t in texts.items():
            with open(os.path.join(root, nm), "w") as f:
                f.write(t)
        import re as _re

        results = {}
        for vname in ("files", "moddir", "moddir-again", "put_string"):
            if vname == "put_string":
                lk = L()
                for nm, t in texts.items():
                    lk.put_string(nm, t)
            else:
                lk = L(directories=[root], **({} if vname == "files" else {"module_directory": os.path.join(d, "mods")}))
            res.evaluations += 1
            try:
                t = lk.get_template("child.html")
                full = t.render_unicode(x="X1")
                inside = _re.search(r"\[me:.*?\]", full).group(0)
                alone = [t.get_def("me").render_unicode(x="X1"), t.get_def("me").render(x="X1")]
            except Exception as e:
                res.violate("inheriting-get-def", "lookup %s, templates %r: %s: %s" % (vname, texts, type(e).__name__, e))
                continue
            res.count("inheriting_get_def_compared")
            results[vname] = inside
            for a in alone:
                if a != inside:
                    res.violate("inheriting-get-def", "lookup %s, templates %r: get_def('me') rendered alone gives %r, inside a full render of child.html the "
                                "same def writes %r" % (vname, texts, a, inside))
        if len(set(results.values())) > 1:
            res.violate("inheriting-get-def", "templates %r: the def renders differently per path: %r" % (texts, results))
        res.nontrivial("inh-getdef", sorted(texts.items()))
    finally:
        shutil.rmtree(d, ignore_errors=True)


def run_cmd_in_directory(res):
    """mako-render started INSIDE the template's directory - with a bare file name, with ./name, from standard input,
    with --template-dir . - and from elsewhere with an absolute path: a template that inherits, includes and uses a
    namespace renders what a TemplateLookup on that directory renders"""
    d = tempfile.mkdtemp(prefix="c08cwd-")
    cwd = os.getcwd()
    try:
        files = {
            "layout.html": "<html>${self.body()}|${x}</html>",
            "part.html": "[part ${x} é世]",
            "lib.html": '<%def name="hi(a)">hi(${a})</%def>',
            "main.html": '<%inherit file="layout.html"/><%namespace name="lib" file="lib.html"/>body <%include file="part.html"/> ${lib.hi(x)} café',
            "plain.html": "plain ${x} café",
        }
        for n, t in files.items():
            with open(os.path.join(d, n), "w", encoding="utf-8") as f:
                f.write(t)
        for name in ("main.html", "plain.html"):
            want = _st["TemplateLookup"](directories=[d]).get_template(name).render_unicode(x="X=1")
            routes = {
                "absolute path, started elsewhere": (cwd, [os.path.join(d, name)], None),
                "bare file name, started in the directory": (d, [name], None),
                "./name, started in the directory": (d, ["./" + name], None),
                "standard input, started in the directory": (d, ["-"], files[name]),
                "--template-dir ., bare file name": (d, ["--template-dir", ".", name], None),
                "relative path from the parent directory": (os.path.dirname(d), [os.path.join(os.path.basename(d), name)], None),
            }
            for route, (where, args, stdin) in routes.items():
                res.evaluations += 1
                res.count("cmdline_directory_routes")
                ofile = os.path.join(d, "out.txt")
                old_err, old_in = sys.stderr, sys.stdin
                sys.stderr = io.StringIO()
                if stdin is not None:
                    sys.stdin = io.StringIO(stdin)
                try:
                    os.chdir(where)
                    try:
                        _st["cmd"].cmdline(["--var", "x=X=1", "--output-file", ofile] + args)
                        with open(ofile, encoding="utf-8") as f:
                            got = f.read()
                    except SystemExit:
                        err = sys.stderr.getvalue().strip()
                        got = "exit: " + (err.split("\n")[-1] if err else "")
                    except Exception as e:
                        got = "%s: %s" % (type(e).__name__, e)
                finally:
                    os.chdir(cwd)
                    sys.stderr, sys.stdin = old_err, old_in
                    if os.path.exists(ofile):
                        os.remove(ofile)
                if got != want:
                    res.violate("paths-differ-mako-render", "%s via mako-render (%s) gives %r, a TemplateLookup on its directory renders %r" % (name, route, got, want),
                                witness="mako-render with a lookup on the current directory")
            res.nontrivial("cmd-in-directory", name)
    finally:
        os.chdir(cwd)
        shutil.rmtree(d, ignore_errors=True)


def run_lookup_options(res):
    """every option that Template takes and TemplateLookup takes on its behalf means the same on a template the
    lookup builds (from a file, from put_string, as an <%include> target) as on one constructed directly"""
    from mako import cache as mcache
    T = _st["Template"]
    L = _st["TemplateLookup"]
    _st["n"] += 1
    d = os.path.join(_st["tmp"], "lo%d" % _st["n"])
    root = os.path.join(d, "root")
    os.makedirs(root)
    seen_args = []

    class RecImpl(mcache.CacheImpl):
        store = {}

        def __init__(self, cache):
            super().__init__(cache)
            seen_args.append(dict(cache.template.cache_args))

        def get_or_create(self, key, creation_function, **kw):
            seen_args.append(("call", key, dict(kw)))
            if key not in self.store:
                self.store[key] = creation_function()
            return self.store[key]

        def set(self, key, value, **kw):
            self.store[key] = value

        def get(self, key, **kw):
            return self.store.get(key)

        def invalidate(self, key, **kw):
            self.store.pop(key, None)

    try:
        mcache.register_plugin("c08rec", __name__, "RecImplHolder")
    except Exception:
        pass
    globals()["RecImplHolder"] = RecImpl
    handled = []

    def handler(context, error):
        handled.append(type(error).__name__)
        context.write("<H>")
        return True

    used_lexers = []

    class CountingLexer(_st["Lexer"]):
        def parse(self):
            used_lexers.append(1)
            return super().parse()

    written = []

    def writer(source, dest):
        written.append(os.path.basename(dest))
        os.makedirs(os.path.dirname(dest), exist_ok=True)
        with open(dest, "wb") as f:
            f.write(source)

    ticks = []

    def tick():
        ticks.append(1)
        return len(ticks)

    # (option set, template source, context, how to render, expected result or predicate)
    probes = [
        ("default_filters", {"default_filters": ["str", "trim"]}, "[${'  a  '}]", {}, "u", "[a]"),
        ("buffer_filters", {"buffer_filters": ["trim"]}, '<%def name="b()" buffered="True">  x  </%def>[${b()}]', {}, "u", "[x]"),
        ("strict_undefined", {"strict_undefined": True}, "${nope}", {}, "u", "NameError: 'nope' is not defined"),
        ("imports", {"imports": ["from os.path import basename"]}, "${basename('/a/b')}", {}, "u", "b"),
        ("future_imports", {"future_imports": ["annotations"]}, "<%!\ndef f(a: NoSuchType_):\n    return 'ok'\n%>${f(1)}", {}, "u", "ok"),
        ("enable_loop", {"enable_loop": False}, "% for i in (1,):\n${loop}\n% endfor\n", {"loop": "L"}, "u", "L\n"),
        ("output_encoding+encoding_errors", {"output_encoding": "ascii", "encoding_errors": "xmlcharrefreplace"}, "café", {}, "b", b"caf&#233;"),
        ("format_exceptions", {"format_exceptions": True}, "${1/0}", {}, "u", lambda o: isinstance(o, str) and "ZeroDivisionError" in o and "<html" in o.lower()),
        ("error_handler", {"error_handler": handler}, "a${1/0}b", {}, "u", "a<H>"),
        ("preprocessor", {"preprocessor": [lambda t_: t_ + "<PP>"]}, "x", {}, "u", "x<PP>"),
        ("lexer_cls", {"lexer_cls": CountingLexer}, "lx", {}, "u", "lx"),
        ("cache_enabled", {"cache_enabled": False, "cache_impl": "c08rec"}, '<%def name="c()" cached="True">${tick()}</%def>${c()}${c()}', {"tick": tick}, "u", "12"),
        ("cache_impl+cache_args", {"cache_impl": "c08rec", "cache_args": {"flavour": "F1"}}, '<%def name="c()" cached="True" cache_timeout="7">v</%def>${c()}', {}, "u", "v"),
        ("cache_type/cache_dir (legacy)", {"cache_impl": "c08rec", "cache_type": "memory", "cache_dir": "/nonexistent-c08"}, '<%def name="c()" cached="True">w</%def>${c()}', {}, "u", "w"),
        ("input_encoding", {"input_encoding": "latin-1"}, "café", {}, "u", "café"),
        # (the handler is the INCLUDED template's: "runs when this template is included within another one"; what the
        # include wrote before failing stays)
        ("include_error_handler", {"include_error_handler": handler}, 'a<%include file="/bad.html"/>b', {}, "u", "ax<H>b"),
    ]
    try:
        with open(os.path.join(root, "bad.html"), "w") as f:
            f.write("x${1/0}y")
        for name, opts, src, ctx, how, exp in probes:
            enc = "latin-1" if name == "input_encoding" else "utf-8"
            fnm = "p_%s.html" % "".join(c if c.isalnum() else "_" for c in name)
            with open(os.path.join(root, fnm), "w", encoding=enc, newline="") as f:
                f.write(src)
            with open(os.path.join(root, "w_" + fnm), "w") as f:
                f.write('<%%include file="/%s"/>' % fnm)
            routes = {
                "direct Template(filename=)": lambda: T(filename=os.path.join(root, fnm), lookup=L(directories=[root]), **opts),
                "TemplateLookup.get_template": lambda: L(directories=[root], **opts).get_template("/" + fnm),
                "TemplateLookup + module_directory": lambda: L(directories=[root], module_directory=os.path.join(d, "m_" + fnm), **opts).get_template("/" + fnm),
                "target of an <%include> in that lookup": lambda: L(directories=[root], **opts).get_template("/w_" + fnm),
            }
            if name != "input_encoding":
                routes["TemplateLookup.put_string"] = lambda: _put(L(directories=[root], **opts), "/ps.html", src)
            for rname, ctor in routes.items():
                del handled[:], used_lexers[:], seen_args[:], ticks[:]
                RecImpl.store.clear()
                res.evaluations += 1
                res.count("lookup_option_routes")
                try:
                    t = ctor()
                    got = t.render_unicode(**ctx) if how == "u" else t.render(**ctx)
                except Exception as e:
                    got = "%s: %s" % (type(e).__name__, e)
                if rname.startswith("target of") and how == "b":
                    pass  # (the including template encodes; the identity is the same)
                if name == "include_error_handler" and rname.startswith("direct"):
                    continue  # /bad.html comes from a lookup without the handler there
                want = exp + "<PP>" if (name == "preprocessor" and rname.startswith("target of")) else exp  # the including template is preprocessed too
                ok = want(got) if callable(want) else got == want
                extra = None
                if ok and name == "lexer_cls" and len(used_lexers) < 1:
                    ok, extra = False, "the Lexer subclass was not used"
                if ok and name == "cache_impl+cache_args":
                    a0 = [a for a in seen_args if isinstance(a, dict)]
                    c0 = [a for a in seen_args if isinstance(a, tuple)]
                    if not a0 or a0[0].get("flavour") != "F1" or not c0 or c0[0][2].get("timeout") != 7:
                        ok, extra = False, "the backend saw %r" % (seen_args,)
                if ok and name.startswith("cache_type"):
                    a0 = [a for a in seen_args if isinstance(a, dict)]
                    if not a0 or a0[0].get("type") != "memory" or a0[0].get("dir") != "/nonexistent-c08":
                        ok, extra = False, "the backend saw %r" % (seen_args,)
                if ok and name in ("error_handler", "include_error_handler") and handled != ["ZeroDivisionError"]:
                    ok, extra = False, "the handler was called for %r" % (handled,)
                if not ok:
                    res.violate("option-lost-on-route", "option %s (%r), template %r built as %s: rendered %r%s" % (name, sorted(opts), src, rname, got, "; " + extra if extra else ""))
            res.nontrivial("lookup-option", name)
        # module_writer (needs a module path): called once per build, by lookup and direct construction alike
        for rname, ctor in (
            ("direct", lambda: T(filename=os.path.join(root, "p_imports.html"), module_directory=os.path.join(d, "mw1"), module_writer=writer, imports=["from os.path import basename"])),
            ("lookup module_directory", lambda: L(directories=[root], module_directory=os.path.join(d, "mw2"), module_writer=writer, imports=["from os.path import basename"]).get_template("/p_imports.html")),
            ("lookup modulename_callable", lambda: L(directories=[root], modulename_callable=lambda f_, u_: os.path.join(d, "mw3", "m.py"), module_writer=writer,
                                                     imports=["from os.path import basename"]).get_template("/p_imports.html")),
        ):
            del written[:]
            res.evaluations += 1
            res.count("lookup_option_routes")
            try:
                out = ctor().render_unicode()
            except Exception as e:
                out = "%s: %s" % (type(e).__name__, e)
            if out != "b" or len(written) != 1:
                res.violate("option-lost-on-route", "module_writer through %s: rendered %r, writer calls %r" % (rname, out, written))
    finally:
        shutil.rmtree(d, ignore_errors=True)


def _put(lk, uri, text):
    lk.put_string(uri, text)
    return lk.get_template(uri)


def gen_cases(tier, seed):
    yield {"kind": "lookup-options"}
    n = 640 if tier == "quick" else 6000
    per = 10
    for i in range(n // per):
        yield {"kind": "batch", "seed": seed, "index": i, "n": per}
    for i in range(8 if tier == "quick" else 100):
        yield {"kind": "lookup", "seed": seed, "index": i}
    for i in range(6 if tier == "quick" else 60):
        yield {"kind": "inhdef", "seed": seed, "index": i}


def run_case(case):
    res = common.CaseResult()
    if case["kind"] == "batch":
        r = common.rng_for(case["seed"], "c08", case["index"])
        _st["n"] += 1
        base = os.path.join(_st["tmp"], "b%d" % _st["n"])
        os.makedirs(base)
        try:
            items = []
            for j in range(case["n"]):
                kind, text, defs = gen_template(r)
                text, enc, ienc = pick_encoding(r, kind, text)
                d = os.path.join(base, "t%d" % j)
                os.makedirs(d)
                run_template(kind, text, defs, d, res, items, enc, ienc)
            run_children(items, base, res)
        finally:
            shutil.rmtree(base, ignore_errors=True)
    elif case["kind"] == "lookup":
        run_lookup_variants(common.rng_for(case["seed"], "c08lk", case["index"]), res)
    elif case["kind"] == "lookup-options":
        run_lookup_options(res)
        run_cmd_in_directory(res)
    elif case["kind"] == "inhdef":
        r = common.rng_for(case["seed"], "c08ig", case["index"])
        for _ in range(5):
            run_inheriting_get_def(r, res)
    elif case["kind"] == "one":
        _st["n"] += 1
        base = os.path.join(_st["tmp"], "o%d" % _st["n"])
        os.makedirs(base)
        items = []
        run_template("replay-strict" if case.get("strict") else "replay", case["text"], case.get("defs", []), base, res, items, case.get("enc", "utf-8"), case.get("input_encoding"))
        run_children(items, base, res)
        shutil.rmtree(base, ignore_errors=True)
    return res

"""C19 - embedded Python keeps its meaning through analysis and re-emission.

CPython is the reference everywhere:
  reemit  ast.dump / eval of Mako's re-emitted expression vs the expression as written, then the
          same expression as a def default, a <%page> default and a filter-call argument in real
          templates, value compared with native eval.
  scope   generated statement blocks; Python's symtable says which names the block needs from
          outside; with strict_undefined and exactly those names the template must render the same
          values as native exec, and removing one must raise NameError naming it.
  margin  blocks with tricky string literals / continuations placed at margins 0..12 (spaces/tabs)
          in <% %> and <%! %>; values must equal native exec of the margin-0 text.
"""
import ast
import builtins
import symtable

from mk import common, pyast

PROPERTY = "C19"
LEVEL = "exploration"
RULE = (
    "reemit: expressions built as random CPython ast trees (depth<=5, all expression node kinds incl. "
    "Pow/MatMult, IfExp, Lambda with every parameter kind, Starred/** calls, dict/set displays with "
    "unpacking, 4 comprehension kinds, f-strings, walrus, extended slices) printed with ast.unparse, plus "
    "~110 hand-written spellings; each is re-emitted by pyparser.ExpressionGenerator and compared by "
    "ast.dump then by value; a sample goes end-to-end through def/page defaults and filter-call arguments. "
    "scope: random statement blocks over disjoint name pools (outer reads r*, bound v*, parameters p*, "
    "comprehension variables q*, nested locals n*) with functions of every parameter kind, lambdas, "
    "comprehensions, try/with/for/while/import; symtable decides the needed names. margin: 14 block "
    "shapes x margins 0..12 x {spaces,tabs} x {<% %>,<%! %>} x LF/CRLF. distinct = by source text; "
    "non-trivial = re-emission produced text / block bound at least one inner-scope name / margin>0."
)
RULE += ' added since: shadowed locals, reads printed after a block, hash / backslash / whitespace-only-line shapes inside strings, comprehensions inside functions, unhashable defaults, keyword-only end-to-end forms. names read after * / ** items in dict, list, set displays and calls. markup with both kinds of quotes after every margin block. else clauses of for / try that read names; names bound in one filter argument and read in a later one.'
ASSUMPTIONS = [
    "CPython's ast, symtable, eval and exec are the reference semantics",
    "blocks never read a name before binding it in the same scope (Mako documents that case separately)",
]
MIN_NONTRIVIAL = 500
REQUIRED_COUNTERS = ["reemit_compared", "e2e_renders", "scope_renders", "scope_missing_name_checks", "margin_renders"]

_st = {}

ENV_SRC = (
    "a = 3\nb = 4\nc = 0\ns = 'str'\nd = {'k': 1, 'v': 2}\nl = [1, 2, 3]\n"
    "def f(*args, **kw):\n    return (args, tuple(sorted(kw.items())))\n"
    "o = complex(1, 2)\n"
)


def setup_worker():
    from mako import exceptions, pyparser
    from mako.template import Template
    import warnings

    warnings.simplefilter("ignore")
    _st.update(pyparser=pyparser, Template=Template, exceptions=exceptions)


def fresh_env():
    env = {}
    exec(ENV_SRC, env)
    return env


class _Slow(Exception):
    pass


def _alarm(signum, frame):
    raise _Slow()


def outcome(fn):
    import signal

    signal.signal(signal.SIGALRM, _alarm)
    signal.setitimer(signal.ITIMER_REAL, 3.0)
    try:
        v = fn()
        r = repr(v)
    except _Slow:
        return ("slow",)
    except RecursionError:
        raise
    except Exception as e:
        return ("exc", type(e).__name__)
    finally:
        signal.setitimer(signal.ITIMER_REAL, 0)
    if " at 0x" in r or "<function" in r or "<generator" in r:
        return ("type", type(v).__name__)
    return ("value", type(v).__name__, r)


# ------------------------------------------------------------------ known findings (recognisers)
def features(tree):
    fs = set()
    for n in ast.walk(tree):
        if isinstance(n, ast.comprehension) and len(n.ifs) > 1:
            fs.add("multi-if")
    return fs


# ------------------------------------------------------------------ reemit
def reemit_one(src, res, e2e):
    pp = _st["pyparser"]
    res.evaluations += 1
    try:
        tree = ast.parse(src, mode="eval")
    except SyntaxError:
        return
    try:
        out = pp.ExpressionGenerator(pp.parse(src, "exec").body[0].value).value()
    except Exception as e:
        res.violate("reemit-raises", "re-emitting %r raised %s: %s" % (src, type(e).__name__, e), witness=src,
                    replay_case={"kind": "expr", "src": src})
        return
    res.count("reemit_compared")
    res.nontrivial("e", src)
    same = False
    try:
        t2 = ast.parse(out, mode="eval")
        same = ast.dump(t2) == ast.dump(tree)
    except SyntaxError:
        res.violate("reemit-unparsable", "%r re-emitted as %r, which does not parse" % (src, out), witness=src,
                    replay_case={"kind": "expr", "src": src})
        return
    if not same:
        res.count("reemit_dump_differs")
        o1 = outcome(lambda: eval(src, fresh_env()))
        o2 = outcome(lambda: eval(out, fresh_env()))
        if o1 != o2 and "slow" not in (o1[0], o2[0]):
            res.violate("reemit-changes-value", "%r re-emitted as %r: %r vs %r" % (src, out, o1, o2), witness=src,
                        replay_case={"kind": "expr", "src": src})
            return
    if e2e:
        end_to_end(src, res)


def end_to_end(src, res):
    T = _st["Template"]
    native = outcome(lambda: eval(src, fresh_env()))
    if native[0] == "slow" or (native[0] == "exc" and native[1] in ("RecursionError", "MemoryError")):
        res.count("e2e_skipped_slow_or_memory")
        return
    top = ast.parse(src, mode="eval").body
    if isinstance(top, (ast.Tuple, ast.NamedExpr, ast.GeneratorExp, ast.Starred)) and not src.startswith("("):
        src = "(" + src + ")"  # a bare tuple / walrus is not an argument default: the spelling, not Mako, decides
    envblock = "<%!\n" + ENV_SRC + "OUT = []\ndef keep(v):\n    OUT.append(v)\n    return lambda t: t\n%>"
    forms = {
        "def-default": envblock + "<%def name=\"g(z=" + src + ")\"><% keep(z) %></%def>${g()}",
        "page-default": envblock + "<%page args=\"z=" + src + "\"/><% keep(z) %>",
        # a defaulted keyword-only parameter written BEFORE a required one, and the same on a nested def
        "def-kwonly-default": envblock + "<%def name=\"g(*r_, z=" + src + ", y_)\"><% keep(z) %></%def>${g(y_=1)}",
        "nested-def-kwonly-default": envblock + "<%def name=\"o_()\"><%def name=\"g(q_=0, *r_, z=" + src + ", y_, **k_)\"><% keep(z) %></%def>${g(y_=1)}</%def>${o_()}",
        "filter-arg": envblock + "${'t' | keep(" + src + ")}",
    }
    if '"' in src or "\n" in src:
        for f_ in ("def-default", "page-default", "def-kwonly-default", "nested-def-kwonly-default"):
            forms.pop(f_)
    for nd in ast.walk(top):
        if isinstance(nd, ast.FormattedValue) and any(
            isinstance(x, (ast.Lambda, ast.GeneratorExp)) or (isinstance(x, ast.Name) and x.id == "f") for x in ast.walk(nd.value)
        ):
            # the text of a function/generator repr (qualname, address) differs between a template
            # module and native eval: the value is not comparable
            res.count("e2e_skipped_function_repr")
            return
    for nd in ast.walk(top):
        if isinstance(nd, ast.FormattedValue) and any(
            isinstance(x, (ast.JoinedStr, ast.Constant)) and (isinstance(x, ast.JoinedStr) or isinstance(x.value, (str, bytes)))
            for x in ast.walk(nd.value)
        ):
            # PEP 701 (3.12): quotes nested inside an f-string replacement field; the template
            # lexer's string scanner predates that grammar - not asserted
            forms.pop("filter-arg", None)
            res.count("e2e_skipped_pep701")
            break
    for form, text in forms.items():
        res.count("e2e_renders")

        def run():
            t = T(text)
            t.render()
            return t.module.OUT[0]

        got = outcome(run)
        if got != native and got[0] != "slow":
            res.violate("e2e-value", "%s with expression %r: template gives %r, native eval gives %r" % (form, src, got, native),
                        witness="%s %s" % (form, src), replay_case={"kind": "expr", "src": src, "e2e": True})


# ------------------------------------------------------------------ scope
_fresh = [0]


def gen_int_expr(r, depth, reads, inner=()):
    """an int-valued expression reading from `reads` (outer names) and `inner` (locally bound)"""
    pool = list(reads) + list(inner)
    k = r.randrange(12) if depth > 0 else r.randrange(2)
    if k == 0 and inner and r.random() < 0.25:
        # an outer name read at this one place only (inside a nested scope): nothing else in the block can make the
        # analysis fetch it from the context by accident
        _fresh[0] += 1
        return "r%d" % (1000 + _fresh[0])
    if k == 0 and pool:
        return r.choice(pool)
    if k <= 1:
        return str(r.randint(0, 9))
    sub = lambda **kw: gen_int_expr(r, depth - 1, reads, kw.get("inner", inner))  # noqa: E731
    if k == 2:
        return "(%s %s %s)" % (sub(), r.choice("+-*"), sub())
    if k == 3:
        return "(%s if %s > %s else %s)" % (sub(), sub(), sub(), sub())
    if k == 4:
        q = "q%d" % depth
        return "sum([%s for %s in range(%d)%s])" % (sub(inner=list(inner) + [q]), q, r.randint(0, 3),
                                                     r.choice(["", " if %s %% 2 == 0" % q]))
    if k == 5:
        q = "q%d" % depth
        return "sum(%s for %s in (1, 2))" % (sub(inner=list(inner) + [q]), q)
    if k == 6:
        q = "q%d" % depth
        return "len({%s: %s for %s in range(2)})" % (q, sub(inner=list(inner) + [q]), q)
    if k == 7:
        if reads and r.random() < 0.3:
            # a parameter named like the outer name its default reads: the default belongs to the enclosing scope
            nm = r.choice(list(reads))
            return "(lambda %s=%s: %s + 1)()" % (nm, nm, nm)
        sig, names, call = gen_sig(r, depth, reads, inner, lam=True)
        return "(lambda %s: %s)(%s)" % (sig, gen_int_expr(r, depth - 1, reads, list(inner) + names), call)
    if k == 8:
        q = "q%d" % depth
        return "max({%s for %s in (0, 1)} | {%s})" % (sub(inner=list(inner) + [q]), q, sub())
    if k == 9:
        # displays and calls with unpacking: the names read AFTER a ** / * item count like any other
        return r.choice(["sum({**{-1: 0}, %s: %s}.values())", "sum([*(), %s, *[%s]])", "max(*[0], %s, *(%s,), **{})", "len({*(), %s, %s})",
                         "sum(dict({-1: 0}, **{'a': %s}, b=%s).values())"]) % (sub(), sub())
    if k == 10:
        return "sum({**{-1: 0}, **{-2: %s}, %s: 1, **{}}.keys())" % (sub(), sub())
    return "abs(%s)" % sub()


def gen_sig(r, depth, reads, inner, lam=False):
    """-> (signature text, bound int-valued names, call argument text)"""
    names, parts, call = [], [], []
    n = [0]

    def fresh():
        n[0] += 1
        return "p%d_%d" % (depth, n[0])

    if r.random() < 0.3:
        a = fresh()
        parts += [a, "/"]
        names.append(a)
        call.append(str(r.randint(0, 5)))
    for _ in range(r.randint(0, 2)):
        a = fresh()
        names.append(a)
        if r.random() < 0.4:
            parts.append("%s=%s" % (a, gen_int_expr(r, 0, reads, inner)))
        else:
            parts.append(a)
            call.append(str(r.randint(0, 5)))
    star = False
    varargs = kwargs = None
    if r.random() < 0.35:
        varargs = fresh()
        parts.append("*" + varargs)
        star = True
        if r.random() < 0.5:
            call.append("7")
    kwcall = []
    if r.random() < 0.4:
        if not star:
            parts.append("*")
        for _ in range(r.randint(1, 2)):
            a = fresh()
            names.append(a)
            if r.random() < 0.5:
                parts.append("%s=%s" % (a, r.randint(0, 5)))
            else:
                parts.append(a)
                kwcall.append("%s=%d" % (a, r.randint(0, 5)))
    if r.random() < 0.3:
        kwargs = fresh()
        parts.append("**" + kwargs)
        if r.random() < 0.5:
            kwcall.append("zz=1")
    extra = []
    if varargs:
        extra.append("len(%s)" % varargs)
    if kwargs:
        extra.append("len(%s)" % kwargs)
    return ", ".join(parts), names + extra, ", ".join(call + kwcall)


def gen_block(r, reads):
    """-> list of source lines (margin 0), bound top-level names"""
    bound = ["v0"]
    lines = ["v0 = %s" % gen_int_expr(r, 2, reads)]
    nfn = 0
    for _ in range(r.randint(2, 7)):
        k = r.randrange(11)
        tgt = "v%d" % r.randint(0, 5)
        e = lambda d=2: gen_int_expr(r, d, reads, bound)  # noqa: E731
        if k == 0:
            lines.append("%s = %s" % (tgt, e()))
        elif k == 1 and bound:
            t = r.choice(bound)
            lines.append("%s %s= %s" % (t, r.choice("+-*"), e()))
            tgt = t
        elif k == 2:
            lines += ["%s = 0" % tgt, "for i_ in range(%d):" % r.randint(0, 3), "    %s += i_ + %s" % (tgt, e(1))]
            if r.random() < 0.5:
                # (the else clause of a loop reads names too - possibly names read nowhere else)
                lines += ["else:", "    %s += 100 + %s" % (tgt, e(1))]
        elif k == 3:
            lines += ["if %s > %s:" % (e(1), e(1)), "    %s = %s" % (tgt, e(1)), "else:", "    %s = %s" % (tgt, e(1))]
        elif k == 4:
            lines += ["try:", "    %s = %s // %s" % (tgt, e(1), r.choice(["0", "1", e(0)])),
                      "except ZeroDivisionError as err_:", "    %s = -1" % tgt]
            if r.random() < 0.4:
                lines += ["else:", "    %s += %s" % (tgt, e(1))]
            if r.random() < 0.4:
                lines += ["finally:", "    v5 = 55"]
                bound.append("v5")
        elif k == 5:
            nfn += 1
            fn = "fn%d" % nfn
            # a local of the function may be named like an outer name the template reads elsewhere: it stays the
            # function's own (the function itself then never reads the outer one)
            shadow = r.choice(list(reads)) if reads and r.random() < 0.4 else None
            freads = [x for x in reads if x != shadow]
            sig, names, call = gen_sig(r, 3, reads, bound)
            body = ["    n0 = %s" % gen_int_expr(r, 2, freads, names)]
            if shadow and r.random() < 0.5:
                body.append("    %s = n0 + 1" % shadow)
                names = names + [shadow]
                shadow = None
            if r.random() < 0.4:
                sig2, names2, call2 = gen_sig(r, 2, freads, names)
                body += ["    def inner_(%s):" % sig2, "        n1 = %s" % gen_int_expr(r, 1, freads, names + names2 + ["n0"]),
                         "        return n1", "    n0 += inner_(%s)" % call2]
            elif r.random() < 0.4:
                body += ["    key_ = lambda s_: s_ + %s" % gen_int_expr(r, 0, freads, names), "    n0 = key_(n0)"]
            if shadow:
                body += ["    %s = n0 * 2" % shadow, "    n0 += %s" % shadow]
            body.append("    return n0")
            lines += ["def %s(%s):" % (fn, sig)] + body + ["%s = %s(%s)" % (tgt, fn, call)]
        elif k == 6:
            lines += ["import os.path as osp_", "%s = len(osp_.sep)" % tgt]
        elif k == 7:
            lines += ["from contextlib import nullcontext", "with nullcontext(%s) as cm_:" % e(1), "    %s = cm_" % tgt]
        elif k == 8:
            lines += ["w_ = 0", "%s = 0" % tgt, "while w_ < %d:" % r.randint(0, 3), "    w_ += 1", "    %s += w_" % tgt]
        elif k == 9:
            q = "qq"
            lines.append("%s = [%s for %s in range(3) if %s != 1]" % (tgt, gen_int_expr(r, 1, reads, bound + [q]), q, q))
        else:
            lines.append("%s = (lambda k_=%s: k_ + %s)()" % (tgt, e(0), e(1)))
        if tgt not in bound:
            bound.append(tgt)
    return lines, bound


def needed_names(block_src):
    """names the block (as a function body) resolves outside itself, per CPython's symtable"""
    wrapped = "def __w():\n" + "\n".join("    " + ln for ln in block_src.split("\n")) + "\n"
    top = symtable.symtable(wrapped, "<block>", "exec")
    need = set()
    inner_bound = set()

    def walk(tb, is_root):
        for sym in tb.get_symbols():
            if sym.is_global() and sym.is_referenced() and not sym.is_declared_global():
                need.add(sym.get_name())
            if not is_root and (sym.is_parameter() or sym.is_local()):
                inner_bound.add(sym.get_name())
        for ch in tb.get_children():
            walk(ch, False)

    fn = top.get_children()[0]
    walk(fn, True)
    need = {n for n in need if not hasattr(builtins, n)}
    return need, inner_bound


def run_scope(case, res):
    T = _st["Template"]
    r = common.rng_for(case["seed"], "c19scope", case["index"])
    for _ in range(case["n"]):
        nreads = r.randint(0, 3)
        reads = ["r%d" % i for i in range(nreads)]
        lines, bound = gen_block(r, reads)
        src = "\n".join(lines)
        try:
            need, inner_bound = needed_names(src)
        except SyntaxError:
            continue
        ctx = {n: 10 + int(n[1:]) for n in need if n.startswith("r") and n[1:].isdigit()}
        if set(ctx) != need:
            res.violate("generator-bug", "block needs %r" % (need,))
            continue
        ns = dict(ctx)
        # after the block every outer name is read once more: it must still be the context's value
        bound = bound + reads
        ctx.update({n: 10 + int(n[1:]) for n in reads})
        need = need | set(reads)
        ns = dict(ctx)
        try:
            exec(compile("def __w():\n" + "\n".join("    " + ln for ln in lines) + "\n    return [%s]\n" % ", ".join(bound), "<native>", "exec"), ns)
            native = ("value", repr(ns["__w"]()))
        except RecursionError:
            continue
        except Exception as e:
            native = ("exc", type(e).__name__)
        where = r.choice(["body", "def"])
        printer = "[" + ", ".join("${repr(%s)}" % b for b in bound) + "]"
        if where == "body":
            text = "<%\n" + "\n".join("    " + ln for ln in lines) + "\n%>" + printer
        else:
            text = "<%def name=\"dd()\"><%\n" + "\n".join("  " + ln for ln in lines) + "\n%>" + printer + "</%def>${dd()}"
        res.evaluations += 1
        rc = {"kind": "scope1", "text": text, "ctx": ctx, "native": list(native), "bound": bound, "need": sorted(need)}
        try:
            t = T(text, strict_undefined=True)
        except Exception as e:
            res.violate("scope-compile-raises", "block\n%s\nraised at compile: %s: %s" % (src, type(e).__name__, e), witness=src, replay_case=rc)
            continue
        res.count("scope_renders")
        try:
            out = t.render_unicode(**ctx)
            got = ("value", out)
        except RecursionError:
            continue
        except Exception as e:
            got = ("exc", type(e).__name__, str(e))
        if native[0] == "value":
            exp = ("value", "[" + ", ".join(eval(native[1]) and [repr(x) for x in eval(native[1])] or []) + "]") if False else native
            # the printer writes repr of each bound name; rebuild the same text from the native list
            vals = ns["__w"]()
            exp_text = "[" + ", ".join(repr(v) for v in vals) + "]"
            if got != ("value", exp_text):
                fid = None
                res.violate(
                    "scope-result",
                    "block (needs %s from outside; inner-scope names %s)\n%s\nin %s: template gives %r, native exec gives %r"
                    % (sorted(need), sorted(inner_bound), src, where, got, exp_text),
                    finding=fid, witness=src, replay_case=rc,
                )
        else:
            if got[0] != "exc" or got[1] != native[1]:
                res.violate("scope-result", "block\n%s\nnative raises %s, template gives %r" % (src, native[1], got), witness=src, replay_case=rc)
        if inner_bound:
            res.nontrivial("scope", src, where)
        # genuinely missing name must be reported by name
        if need and native[0] == "value":
            miss = r.choice(sorted(need))
            ctx2 = {k: v for k, v in ctx.items() if k != miss}
            res.count("scope_missing_name_checks")
            try:
                t.render_unicode(**ctx2)
                res.violate("missing-name-not-reported", "block\n%s\nrendered without %r under strict_undefined" % (src, miss), witness=src, replay_case=rc)
            except NameError as e:
                if miss not in str(e):
                    res.violate("missing-name-misnamed", "block\n%s\nwithout %r raised NameError(%s)" % (src, miss, e), witness=src, replay_case=rc)
            except Exception as e:
                res.violate("missing-name-other-exception", "block\n%s\nwithout %r raised %s: %s" % (src, miss, type(e).__name__, e), witness=src, replay_case=rc)
        if res.sample is None:
            res.sample = {"kind": "scope", "where": where, "block": src, "needs": sorted(need), "inner_scope_names": sorted(inner_bound)}


# ------------------------------------------------------------------ margin
# each shape: list of (line, margin_applies) ; bound names
SHAPES = [
    ([("x = 1", 1), ("y = x + 1", 1)], ["x", "y"]),
    ([("s = \"a#b\"  # comment with ' quote", 1), ("t = 'it\\'s'", 1)], ["s", "t"]),
    ([("s = \"\"\"multi", 1), ("  line 'q'", 0), ("    # not a comment", 0), ("\"\"\"", 0), ("u = len(s)", 1)], ["s", "u"]),
    ([("s = '''tri \"\"\" inside", 1), ("end'''", 0), ("v = 2", 1)], ["s", "v"]),
    ([("s = \"back\\", 1), ("slash\"", 0), ("w = 3", 1)], ["s", "w"]),
    ([("t = (1,", 1), ("     2,", 1), ("  3)", 1)], ["t"]),
    ([("x = 1", 1), ("if x:", 1), ("    y = 2", 1), ("else:", 1), ("    y = 3", 1)], ["x", "y"]),
    ([("z = 0", 1), ("for i in range(3):", 1), ("    z += i", 1), ("    if z > 1:", 1), ("        break", 1)], ["z"]),
    ([("def fn(a, b=2):", 1), ("    # it's a \"comment\" with '''", 1), ("    return a * b", 1), ("r = fn(4)", 1)], ["r"]),
    ([("x = 1 + \\", 1), ("    2", 1), ("y = x", 1)], ["x", "y"]),
    ([("s = '%>'", 1), ("t = \"<%\"", 1)], ["s", "t"]),
    ([("# leading comment", 1), ("", 0), ("x = 5", 1), ("", 0), ("y = 6  # trailing", 1)], ["x", "y"]),
    ([("s = \"tab\there\"", 1), ("n = len(s)", 1)], ["s", "n"]),
    ([("x = \"#'''\"", 1), ("y = \"\"\"a", 1), ("  b\"\"\"", 0)], ["x", "y"]),
    ([("d = {'k': [1,", 1), ("          2]}", 1), ("e = d['k'][1]", 1)], ["d", "e"]),
    ([("try:", 1), ("    q = 1 // 0", 1), ("except ZeroDivisionError:", 1), ("    q = 'caught'", 1), ("finally:", 1), ("    p = 'fin'", 1)], ["q", "p"]),
    ([("s = 'a' \\", 1), ("    'b'", 1)], ["s"]),
    ([('s = "a#b\\', 1), ('tail"', 0), ('n = len(s)', 1)], ['s', 'n']),
    ([("s = 'it\\'s # 50%\\", 1), ("  tail'", 0), ('n = len(s)', 1)], ['s', 'n']),
    ([("t = '#' + \\", 1), ("    'b'", 1), ('u = t * 2', 1)], ['t', 'u']),
    ([('t = [1,  # one "', 1), ("     2]  # two '''x", 1)], ['t']),
    ([('x = 1  # path is c:\\', 1), ('y = 2', 1)], ['x', 'y']),
    ([('# only a comment \\', 1), ('y = 3', 1), ('if y:', 1), ('    z = 4  # c:\\', 1), ('    w = 5', 1)], ['y', 'z', 'w']),
    ([('s = """a', 1), ('    ', 0), ('\t ', 0), ('  b"""', 0), ('n = len(s)', 1)], ['s', 'n']),
    ([("s = '''x", 1), ('', 0), ('        ', 0), ("y'''", 0)], ['s']),
    ([("class K:", 1), ("    attr = 'v'", 1), ("    def m(self):", 1), ("        return self.attr", 1), ("k = K().m()", 1)], ["k"]),
]


def printer_quote_count_misled(base):
    """recogniser for C19/printer-triple-quote-count: PythonPrinter._in_multi_line toggles its
    'inside a triple-quoted string' flag on every line holding an odd number of triple-quote
    tokens, wherever they stand (comments, other strings).  True when that per-line count
    disagrees with CPython's tokenizer about which physical lines lie inside a string."""
    import io
    import re
    import tokenize

    lines = base.split("\n")
    inside_true = [False] * len(lines)
    try:
        for tok in tokenize.generate_tokens(io.StringIO(base + "\n").readline):
            # (a single-quoted literal continued by backslash-newline is the printer's other flag, not this finding)
            if tok.type == tokenize.STRING and tok.end[0] > tok.start[0] and re.match(r"[A-Za-z]*(\"\"\"|\'\'\')", tok.string):
                for ln in range(tok.start[0] + 1, tok.end[0] + 1):
                    inside_true[ln - 1] = True
    except (tokenize.TokenError, IndentationError, SyntaxError):
        return False
    state = False
    for i, ln in enumerate(lines):
        if state != inside_true[i]:
            return True
        triples = len(re.findall(r"\"\"\"|\'\'\'", ln))
        if triples % 2:
            state = not state
    return state  # still 'open' at the end of the block: everything after it is left unindented


CB_WITNESS = "a comment ending in a backslash (x = 1  # path is c:%s) followed by another statement" % chr(92)


def comment_ends_in_backslash(base):
    """recogniser for C19/comment-ending-in-backslash: some comment of the block ends in a backslash (which
    does not join lines in Python, but PythonPrinter and adjust_whitespace treat the next line as a continuation)"""
    import io
    import tokenize

    try:
        return any(tok.type == tokenize.COMMENT and tok.string.endswith(chr(92)) for tok in tokenize.generate_tokens(io.StringIO(base + "\n").readline))
    except (tokenize.TokenError, IndentationError, SyntaxError):
        return False


def run_margin(case, res):
    T = _st["Template"]
    shape_i, margin, ch, module, eol = case["shape"], case["margin"], case["ch"], case["module"], case["eol"]
    lines, bound = SHAPES[shape_i]
    base = "\n".join(ln for ln, _ in lines)
    ns = {}
    exec(compile(base, "<native>", "exec"), ns)
    exp = "[" + ", ".join(repr(ns[b]) for b in bound) + "]"
    m = ch * margin
    body = eol.join((m + ln) if (flag and ln) else ln for ln, flag in lines)
    opener = "<%!" if module else "<%"
    # (markup with both kinds of quotes follows the block: a literal of the block that the lexer does not skip as one
    # unit would find its "closing" quote there)
    tail = " <a title=\"t\">it's \"q\"</a>"
    text = opener + eol + body + eol + "%>[" + ", ".join("${repr(%s)}" % b for b in bound) + "]" + tail
    exp += tail
    res.evaluations += 1
    fid = "C19/printer-triple-quote-count" if printer_quote_count_misled(base) else None
    if fid is None and comment_ends_in_backslash(base):
        fid = "C19/comment-ending-in-backslash"
    wit = CB_WITNESS if fid == "C19/comment-ending-in-backslash" else "shape %d: %r" % (shape_i, base)
    try:
        out = T(text).render_unicode()
    except Exception as e:
        res.violate("margin-raises", "block at margin %d%s (%s):\n%s\nraised %s: %s" % (margin, "T" if ch == "\t" else "S", opener, body, type(e).__name__, e),
                    finding=fid, witness=wit)
        return
    res.count("margin_renders")
    if margin:
        res.nontrivial("margin", shape_i, margin, ch, module, eol)
    if out != exp:
        res.violate("margin-value", "block at margin %d%s (%s):\n%s\ngives %s, native exec of the margin-0 text gives %s" % (margin, "T" if ch == "\t" else "S", opener, body, out, exp),
                    finding=fid, witness=wit)
    if res.sample is None:
        res.sample = {"kind": "margin", "template": text, "expected": exp}


# ------------------------------------------------------------------ directed scenarios
DIRECTED = [
    # (name, template, context, strict, expected output or exception type name, finding id)
    ("comp-target-vs-context", "<% ys = [q for q in (1, 2)] %>${q}|${ys}", {"q": "ctx"}, False, "ctx|[1, 2]", "C19/toplevel-comprehension-target-declared"),
    ("comp-target-vs-context-strict", "<% ys = {q: 1 for q in (1, 2)} %>${q}", {"q": "ctx"}, True, "ctx", "C19/toplevel-comprehension-target-declared"),
    ("comp-target-unused-later", "<% ys = [q * 2 for q in (1, 2)] %>${ys}", {}, True, "[2, 4]", None),
    ("genexp-target", "<% t = sum(q for q in (1, 2)) %>${t}", {}, True, "3", None),
    ("lambda-varargs", "<% f = lambda *a, **k: (a, sorted(k)) %>${f(1, z=2)}", {}, True, "((1,), ['z'])", None),
    ("def-kwonly", "<%\ndef fn(a, *, b=2, **kw):\n    return a + b + len(kw)\n%>${fn(1, c=3)}", {}, True, "4", None),
    ("lambda-default-from-context", "<% f = lambda k=x: k %>${f()}", {"x": 5}, True, "5", None),
    ("nested-comp-element", "<% f = lambda: [x for i in range(2)] %>${f()}", {"x": 7}, True, "[7, 7]", None),
    ("nested-comp-condition", "<% f = lambda: [i for i in range(3) if i != x] %>${f()}", {"x": 1}, True, "[0, 2]", None),
    ("missing-in-default", "<% f = lambda k=nope: k %>${f()}", {}, True, "NameError:nope", None),
    ("default-named-like-parameter", "<% f = lambda x=x: x %>${f()}", {"x": 5}, True, "5", None),
    ("kwonly-default-named-like-parameter", "<%\ndef g(*, y=y):\n    return y\n%>${g()}", {"y": 6}, True, "6", None),
    ("default-reads-earlier-parameter-name", "<%\ndef h(a, b=a):\n    return (a, b)\n%>${h(1)}", {"a": 9}, True, "(1, 9)", None),
    ("missing-in-nested-comp", "<% f = lambda: [nope for i in range(2)] %>${f()}", {}, True, "NameError:nope", None),
    ("except-name", "<%\ntry:\n    1 // 0\nexcept ZeroDivisionError as e:\n    m = 'caught'\n%>${m}", {}, True, "caught", None),
    ("posonly", "<%\ndef fn(a, /, b):\n    return a - b\n%>${fn(5, 2)}", {}, True, "3", None),
    ("walrus-in-comp", "<% v = [y for x in (1, 2) if (y := x * 2)] %>${v}", {}, True, "[2, 4]", None),
    ("tab-in-literal", "<%\n\ts = 'a\tb'\n%>${repr(s)}", {}, False, "'a\\tb'", None),
    ("default-pow", '<%def name="f(a=2**3, b=(1 if 0 else 2) + 1)">${a},${b}</%def>${f()}', {}, False, "8,3", None),
    ("default-fstring", "<%def name=\"f(a=f'{1+1}x')\">${a}</%def>${f()}", {}, False, "2x", None),
    ("fn-dictcomp-value", "<% f = lambda: {i: xv for i in range(2)} %>${f()}", {"xv": 7}, True, "{0: 7, 1: 7}", None),
    ("fn-dictcomp-key", "<% f = lambda: {xk: i for i in range(1)} %>${f()}", {"xk": "k"}, True, "{'k': 0}", None),
    ("fn-setcomp-element", "<% f = lambda: {xs for i in range(2)} %>${f()}", {"xs": 5}, True, "{5}", None),
    ("fn-genexp-element", "<% f = lambda: sum(xg for i in range(2)) %>${f()}", {"xg": 4}, True, "8", None),
    ("fn-comp-iterable", "<% f = lambda: [i for i in xr] %>${f()}", {"xr": (1, 2)}, True, "[1, 2]", None),
    ("fn-comp-second-iterable", "<% f = lambda: [(i, j) for i in (1,) for j in xj] %>${f()}", {"xj": (3,)}, True, "[(1, 3)]", None),
    ("fn-nested-comp-element", "<% f = lambda: [[xn for j in range(1)] for i in range(2)] %>${f()}", {"xn": 1}, True, "[[1], [1]]", None),
    ("def-dictcomp-value", "<%\ndef g():\n    return {i: xd for i in range(1)}\n%>${g()}", {"xd": 2}, True, "{0: 2}", None),
    ("def-dictcomp-missing", "<%\ndef g():\n    return {i: nope for i in range(1)}\n%>${g()}", {}, True, "NameError:nope", None),
    ("fn-comp-target-not-demanded", "<% f = lambda: {i: j for i, j in ((1, 2),)} %>${f()}", {}, True, "{1: 2}", None),
    ("page-default-unhashable", '<%page args="z=[1, 2], y={\'a\': 1}, s={3}"/>${z}${y}${s}', {}, False, "[1, 2]{'a': 1}{3}", None),
    ("page-default-unhashable-given", '<%page args="z=[1, 2]"/>${z}', {"z": [9]}, False, "[9]", None),
    ("def-default-unhashable", '<%def name="f(a=[1, {2: 3}], *b, c={4}, **d)">${a}${c}</%def>${f()}', {}, False, "[1, {2: 3}]{4}", None),
    ("dict-key-after-splat", "${{**base, key: val}}", {"base": {}, "key": "k", "val": 1}, True, "{'k': 1}", None),
    ("dict-key-after-splat-block", "<% d = {**base, key: 1, **base, other: 2} %>${d}", {"base": {}, "key": "k", "other": "o"}, True, "{'k': 1, 'o': 2}", None),
    ("dict-key-after-splat-fn", "<%\ndef g():\n    return {**base, kf: 1}\n%>${g()}", {"base": {}, "kf": "k"}, True, "{'k': 1}", None),
    ("filter-args-sibling-comprehension", '<%!\ndef tg(l):\n    return lambda s: s + str(l)\n%>${"v" | n, tg([c for c in cs]), tg(c)}', {"cs": (1, 2), "c": "C"}, False, "v[1, 2]C", None),
    ("filter-args-sibling-walrus", '<%!\ndef tg(l):\n    return lambda s: s + str(l)\n%>${"v" | n, tg(sum(q for q in (1, 2))), tg(q), tg([w for w in (3,)]), tg(w)}', {"q": "Q", "w": "W"}, False, "v3Q[3]W", None),
    # the parameters of a def are bound by the def: a filter call of that def which reads them demands nothing from the context
    ("def-filter-reads-own-parameter", '<%!\ndef tg(l):\n    return lambda s: s + str(l)\n%><%def name="w(tag)" filter="tg(tag)">d</%def>${w("b")}', {}, True, "db", None),
    ("nested-def-filter-reads-own-parameters", '<%!\ndef tg(l):\n    return lambda s: s + str(l)\n%><%def name="o()"><%def name="w(tag, *rest, sep=\'i\', **kw)" '
                                               'filter="tg(tag), tg(sep), tg(len(rest) + len(kw))">d</%def>${w("b", 1, 2, k=3)}</%def>${o()}', {}, True, "dbi3", None),
    ("buffered-def-filter-reads-own-default-parameter", '<%!\ndef tg(l):\n    return lambda s: s + str(l)\n%><%def name="w(tag=\'u\')" buffered="True" filter="tg(tag)">d</%def>${w()}', {}, True, "du", None),
    ("def-filter-reads-parameter-and-context", '<%!\ndef tg(l):\n    return lambda s: s + str(l)\n%><%def name="w(tag)" filter="tg(tag + cx)">d</%def>${w("b")}', {"cx": "C"}, True, "dbC", None),
    ("def-filter-reads-missing-name", '<%!\ndef tg(l):\n    return lambda s: s + str(l)\n%><%def name="w(tag)" filter="tg(missing)">d</%def>${w("b")}', {}, True, "NameError:missing", None),
    ("def-in-call-filter-reads-own-parameter", '<%!\ndef tg(l):\n    return lambda s: s + str(l)\n%><%def name="c()">${caller.w("z")}</%def><%call expr="c()"><%def name="w(tag)" filter="tg(tag)">d</%def></%call>',
     {}, True, "dz", None),
    ("def-filter-args-sibling-comprehension", '<%!\ndef tg(l):\n    return lambda s: s + str(l)\n%><%def name="fd()" filter="tg({k: 1 for k in ks}), tg(k)">d</%def>${fd()}', {"ks": ("a",), "k": "K"}, False, "d{'a': 1}K", None),
    ("default-kwsplat", '<%! D = {"sep": "-"} %><%def name="f(a=dict(**D))">${a}</%def>${f()}', {}, False, "{'sep': '-'}", None),
]


def run_directed(res):
    T = _st["Template"]
    for name, text, ctx, strict, expected, fid in DIRECTED:
        res.evaluations += 1
        try:
            got = T(text, strict_undefined=strict).render_unicode(**ctx)
        except NameError as e:
            got = "NameError:" + (str(e).split("'")[1] if "'" in str(e) else str(e))
        except Exception as e:
            got = "%s:%s" % (type(e).__name__, e)
        res.count("directed_scenarios")
        res.nontrivial("directed", name)
        if got != expected:
            # the listed finding is the NameError for the comprehension target; any other wrong result is new
            if fid == "C19/toplevel-comprehension-target-declared" and got != "NameError:q":
                fid = None
            res.violate("directed-" + name, "template %r with %r (strict_undefined=%s) gives %r, expected %r" % (text, ctx, strict, got, expected),
                        finding=fid, witness=text)


# ------------------------------------------------------------------ plumbing
def gen_cases(tier, seed):
    yield {"kind": "directed"}
    yield {"kind": "hand", "exprs": pyast.HAND_EXPRS}
    n = 60000 if tier == "quick" else 600000
    per = 500
    for i in range(n // per):
        yield {"kind": "reemit", "seed": seed, "index": i, "n": per, "e2e_every": 25 if tier == "quick" else 40}
    nb = 10000 if tier == "quick" else 80000
    per = 100
    for i in range(nb // per):
        yield {"kind": "scope", "seed": seed, "index": i, "n": per}
    for si in range(len(SHAPES)):
        for margin in range(0, 13):
            for ch in (" ", "\t"):
                if ch == "\t" and margin > 3:
                    continue
                for module in (False, True):
                    for eol in ("\n", "\r\n"):
                        yield {"kind": "margin", "shape": si, "margin": margin, "ch": ch, "module": module, "eol": eol}


def run_case(case):
    res = common.CaseResult()
    k = case["kind"]
    if k == "directed":
        run_directed(res)
    elif k == "hand":
        for e in case["exprs"]:
            reemit_one(e, res, True)
    elif k == "reemit":
        r = common.rng_for(case["seed"], "c19expr", case["index"])
        for j in range(case["n"]):
            src = pyast.expr_source(r, r.choice([1, 2, 2, 3, 3, 4, 5]))
            if src is None:
                continue
            reemit_one(src, res, j % case["e2e_every"] == 0)
            if res.sample is None:
                res.sample = {"kind": "reemit", "expr": src}
    elif k == "expr":
        reemit_one(case["src"], res, True)
    elif k == "scope":
        run_scope(case, res)
    elif k == "scope1":
        T = _st["Template"]
        res.evaluations += 1
        try:
            out = T(case["text"], strict_undefined=True).render_unicode(**case["ctx"])
            print("template gives", out, "native", case["native"])
        except Exception as e:
            res.violate("scope-result", "replayed template raised %s: %s (native: %r)" % (type(e).__name__, e, case["native"]))
    elif k == "margin":
        run_margin(case, res)
    return res

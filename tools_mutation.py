#!/usr/bin/env python3
"""Mutation sampling used for calibration (not a registered check).

1. enumerate small syntactic mutations of /repo/mako/*.py (comparison operators, and/or, dropped `not`, integer
   constants +-1, True/False, deleted call statements);
2. keep the mutants that the pinned suite does not notice (567 passed, the 3 baseline failures deselected);
3. run the checks that watch the mutated file against each survivor (scratch copy, VERIF_REPO) and record which
   check reports it.  Survivors nobody reports are listed for triage: equivalent mutant, outside every property,
   or a gap in a workload.

usage: tools_mutation.py sample <n> <seed> <outdir>        # steps 1+2, writes <outdir>/survivors.json
       tools_mutation.py judge <outdir> [tier]             # step 3, writes <outdir>/judged.json
Scratch copies live under /tmp/mut-* and are removed as soon as a mutant is done.
"""
import ast
import json
import os
import random
import shutil
import subprocess
import sys
from concurrent.futures import ThreadPoolExecutor

REPO = "/repo"
VERIF = os.path.dirname(os.path.abspath(__file__))
PY = "/venv/bin/python"
FILES = ["lexer.py", "parsetree.py", "codegen.py", "runtime.py", "lookup.py", "template.py", "util.py", "pygen.py", "pyparser.py",
         "ast.py", "filters.py", "cache.py", "exceptions.py", "_ast_util.py", "cmd.py", "ext/extract.py", "ext/babelplugin.py", "ext/linguaplugin.py"]
WATCH = {
    "lexer.py": ["C01", "C11", "C02", "C20"], "parsetree.py": ["C01", "C11", "C05", "C06", "C02"],
    "codegen.py": ["C02", "C03", "C04", "C05", "C06", "C07", "C12", "C13", "C17", "C08"],
    "runtime.py": ["C03", "C04", "C05", "C06", "C07", "C13"], "lookup.py": ["C14", "C09", "C07", "C16"],
    "template.py": ["C15", "C08", "C09", "C18", "C14", "C12"], "util.py": ["C16", "C14", "C18", "C15", "C08"],
    "pygen.py": ["C19", "C11", "C03", "C12"], "pyparser.py": ["C19", "C04", "C02"], "ast.py": ["C19", "C11", "C02", "C05"],
    "filters.py": ["C10", "C02"], "cache.py": ["C17"], "exceptions.py": ["C12", "C11", "C13"], "_ast_util.py": ["C19"],
    "cmd.py": ["C08"], "ext/extract.py": ["C20"], "ext/babelplugin.py": ["C20"], "ext/linguaplugin.py": ["C20"],
}
BASELINE_FAIL = ["test/test_exceptions.py::ExceptionsTest::test_custom_tback", "test/test_exceptions.py::ExceptionsTest::test_py_utf8_html_error_template",
                 "test/test_exceptions.py::ExceptionsTest::test_utf8_format_exceptions_pygments"]
CMP = {ast.Eq: "!=", ast.NotEq: "==", ast.Lt: "<=", ast.LtE: "<", ast.Gt: ">=", ast.GtE: ">", ast.Is: "is not", ast.IsNot: "is", ast.In: "not in", ast.NotIn: "in"}


def offsets(src):
    starts = [0]
    for ln in src.split("\n"):
        starts.append(starts[-1] + len(ln) + 1)
    return starts


def sites(path):
    """-> list of (description, start, end, replacement) over the file's text"""
    src = open(path, encoding="utf-8").read()
    tree = ast.parse(src)
    st = offsets(src)
    # byte offsets vs str offsets: mako sources are ASCII except a few comments; use utf-8 aware conversion
    lines = src.split("\n")

    def pos(lineno, col):
        # col is a utf-8 byte offset
        return st[lineno - 1] + len(lines[lineno - 1].encode("utf-8")[:col].decode("utf-8"))

    out = []
    for node in ast.walk(tree):
        if isinstance(node, ast.Compare) and len(node.ops) == 1 and type(node.ops[0]) in CMP:
            a = pos(node.left.end_lineno, node.left.end_col_offset)
            b = pos(node.comparators[0].lineno, node.comparators[0].col_offset)
            mid = src[a:b]
            if "\n" in mid or "(" in mid or ")" in mid:
                continue
            out.append(("cmp %s -> %s" % (mid.strip(), CMP[type(node.ops[0])]), a, b, " %s " % CMP[type(node.ops[0])], node.lineno))
        elif isinstance(node, ast.BoolOp) and len(node.values) == 2:
            a = pos(node.values[0].end_lineno, node.values[0].end_col_offset)
            b = pos(node.values[1].lineno, node.values[1].col_offset)
            mid = src[a:b]
            if mid.strip() not in ("and", "or"):
                continue
            new = "or" if mid.strip() == "and" else "and"
            out.append(("%s -> %s" % (mid.strip(), new), a, b, mid.replace(mid.strip(), new), node.lineno))
        elif isinstance(node, ast.UnaryOp) and isinstance(node.op, ast.Not):
            a = pos(node.lineno, node.col_offset)
            b = pos(node.operand.lineno, node.operand.col_offset)
            if src[a:b].strip() == "not":
                out.append(("drop not", a, b, "", node.lineno))
        elif isinstance(node, ast.Constant) and type(node.value) is int and 0 <= node.value <= 3 and node.lineno == node.end_lineno:
            a, b = pos(node.lineno, node.col_offset), pos(node.end_lineno, node.end_col_offset)
            if src[a:b] == str(node.value):
                out.append(("int %d -> %d" % (node.value, node.value + 1), a, b, str(node.value + 1), node.lineno))
        elif isinstance(node, ast.Constant) and type(node.value) is bool:
            a, b = pos(node.lineno, node.col_offset), pos(node.end_lineno, node.end_col_offset)
            out.append(("bool %s -> %s" % (node.value, not node.value), a, b, str(not node.value), node.lineno))
        elif isinstance(node, ast.Expr) and isinstance(node.value, ast.Call) and node.lineno == node.end_lineno:
            a, b = pos(node.lineno, node.col_offset), pos(node.end_lineno, node.end_col_offset)
            out.append(("delete call %s" % src[a:b][:50], a, b, "pass", node.lineno))
    return src, out


def make_copy(tag):
    d = "/tmp/mut-%s" % tag
    shutil.rmtree(d, ignore_errors=True)
    shutil.copytree(REPO, d, ignore=shutil.ignore_patterns(".git", "__pycache__", "modules", "*.pyc", "doc", "build"))
    return d


def suite_passes(d):
    cmd = [PY, "-m", "pytest", "-q", "-x", "-p", "no:cacheprovider", "--timeout=300"]
    for t in BASELINE_FAIL:
        cmd += ["--deselect", t]
    env = dict(os.environ, PYTHONDONTWRITEBYTECODE="1")
    try:
        p = subprocess.run(cmd, cwd=d, stdout=subprocess.PIPE, stderr=subprocess.STDOUT, text=True, timeout=900, env=env)
    except subprocess.TimeoutExpired:
        return False
    return p.returncode == 0


def try_mutant(m):
    f, desc, a, b, new, lineno, idx = m
    d = make_copy("s%d" % idx)
    try:
        path = os.path.join(d, "mako", f)
        src = open(path, encoding="utf-8").read()
        mutated = src[:a] + new + src[b:]
        try:
            compile(mutated, path, "exec")
        except SyntaxError:
            return None
        open(path, "w", encoding="utf-8").write(mutated)
        ok = suite_passes(d)
        return ok
    finally:
        shutil.rmtree(d, ignore_errors=True)


def cmd_sample(n, seed, outdir):
    os.makedirs(outdir, exist_ok=True)
    allm = []
    for f in FILES:
        src, ss = sites(os.path.join(REPO, "mako", f))
        for desc, a, b, new, lineno in ss:
            allm.append([f, desc, a, b, new, lineno])
    r = random.Random(seed)
    r.shuffle(allm)
    # stratified: at most n / len(FILES) per file, so that the large files do not crowd out the small ones
    per = max(1, n // len(FILES))
    cnt, picked = {}, []
    for m in allm:
        if cnt.get(m[0], 0) < per * (3 if m[0] in ("codegen.py", "runtime.py", "lexer.py", "template.py", "lookup.py") else 1):
            cnt[m[0]] = cnt.get(m[0], 0) + 1
            picked.append(m)
    chosen = [m + [i] for i, m in enumerate(picked)]
    print("mutation sites: %d, sampled: %d" % (len(allm), len(chosen)), flush=True)
    survivors, killed, invalid = [], 0, 0
    with ThreadPoolExecutor(max_workers=12) as ex:
        for m, ok in zip(chosen, ex.map(try_mutant, chosen)):
            if ok is None:
                invalid += 1
            elif ok:
                survivors.append({"file": m[0], "desc": m[1], "start": m[2], "end": m[3], "new": m[4], "line": m[5], "idx": m[6]})
                print("SURVIVOR %s:%d %s" % (m[0], m[5], m[1]), flush=True)
            else:
                killed += 1
    json.dump({"sites": len(allm), "sampled": len(chosen), "killed_by_suite": killed, "invalid": invalid, "survivors": survivors},
              open(os.path.join(outdir, "survivors.json"), "w"), indent=1)
    print("killed by the suite: %d, invalid: %d, survivors: %d" % (killed, invalid, len(survivors)))


def cmd_judge(outdir, tier="quick"):
    data = json.load(open(os.path.join(outdir, "survivors.json")))
    judged = []
    jp = os.path.join(outdir, "judged.json")
    if os.path.exists(jp):
        judged = json.load(open(jp))
    done = {j["idx"] for j in judged}
    for s in data["survivors"]:
        if s["idx"] in done:
            continue
        d = make_copy("j%d" % s["idx"])
        try:
            path = os.path.join(d, "mako", s["file"])
            src = open(path, encoding="utf-8").read()
            open(path, "w", encoding="utf-8").write(src[:s["start"]] + s["new"] + src[s["end"]:])
            line_text = src.split("\n")[s["line"] - 1].strip()
            caught = []
            for c in WATCH[s["file"]]:
                env = dict(os.environ, VERIF_REPO=d, VERIF_WORKER_BUDGET=os.environ.get("MUT_BUDGET", "240"))
                try:
                    p = subprocess.run([PY, os.path.join(VERIF, "run.py"), c, "--tier", tier], cwd=VERIF, stdout=subprocess.PIPE, stderr=subprocess.STDOUT, text=True, timeout=1500, env=env)
                    rc = p.returncode
                    kinds = sorted({ln.split("kind=")[1].split(":")[0] for ln in p.stdout.split("\n") if "kind=" in ln})[:4]
                except subprocess.TimeoutExpired:
                    rc, kinds = 2, ["timeout"]
                if rc == 1:
                    caught.append({"check": c, "kinds": kinds})
                    break
                if rc == 2:
                    caught.append({"check": c, "inconclusive": True, "kinds": kinds})
            s2 = dict(s, line_text=line_text, caught=[c for c in caught if not c.get("inconclusive")], inconclusive=[c for c in caught if c.get("inconclusive")])
            judged.append(s2)
            print("%s:%d %-28s | %s -> %s" % (s["file"], s["line"], s["desc"][:28], line_text[:70], ", ".join(c["check"] for c in s2["caught"]) or "NOT CAUGHT"), flush=True)
            json.dump(judged, open(jp, "w"), indent=1)
        finally:
            shutil.rmtree(d, ignore_errors=True)
    n = len(judged)
    k = sum(1 for j in judged if j["caught"])
    print("survivors judged: %d, reported by a check: %d, not reported: %d" % (n, k, n - k))


if __name__ == "__main__":
    if sys.argv[1] == "sample":
        cmd_sample(int(sys.argv[2]), int(sys.argv[3]), sys.argv[4])
    elif sys.argv[1] == "judge":
        cmd_judge(sys.argv[2], *(sys.argv[3:4]))

#!/bin/bash
# usage: tools_mutant.sh <check-id> <file-relative-to-repo> <python-replace-old> <python-replace-new> [tier]
# copies /repo/mako to a scratch dir, applies one textual replacement, runs the check against it.
set -e
ID=$1; FILE=$2; OLD=$3; NEW=$4; TIER=${5:-quick}
D=$(mktemp -d /tmp/mut-XXXXXX)
cp -r /repo/mako $D/
python3 - "$D/$FILE" "$OLD" "$NEW" <<'PY'
import sys
p,old,new=sys.argv[1:4]
s=open(p).read()
assert old in s, "pattern not found"
open(p,'w').write(s.replace(old,new,1))
PY
cd /verif
VERIF_REPO=$D /venv/bin/python run.py $ID --tier $TIER 2>&1 | cut -c1-300 | tail -4
rm -rf $D

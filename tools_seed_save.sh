#!/bin/bash
# usage: tools_seed_save.sh <property-id> <worktree> <name> <caught-by text>
ID=$1; WT=$2; NAME=$3; CAUGHT=$4
D=/verif/seeded/$NAME; mkdir -p $D
if [ -s $WT/seed/patch.diff ]; then cp $WT/seed/patch.diff $D/patch.diff; else git -C $WT diff -- mako > $D/patch.diff; fi
cp $WT/seed/demo.py $D/demo.py 2>/dev/null
python3 - "$WT/seed/meta.json" "$D/meta.json" "$ID" "$CAUGHT" <<'PY'
import json,sys
src,dst,pid,caught=sys.argv[1:5]
try: m=json.load(open(src))
except Exception: m={}
m["property"]=pid
m["confirmed_by_me"]="patch applies to /repo HEAD; pinned suite 567 passed / 3 baseline failures with the patch; demo.py exits non-zero with the patch and 0 without (tools_seed_eval.sh)"
m["checks_run"]=caught
json.dump(m,open(dst,"w"),indent=1)
PY
echo saved $D

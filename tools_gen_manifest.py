#!/usr/bin/env python3
"""Regenerates MANIFEST.json from the table below (so it is always valid JSON and complete)."""
import json, os
HERE = os.path.dirname(os.path.abspath(__file__))
ALL = ["C%02d" % i for i in range(1, 21)]
CHECKS = {
 "C02": dict(
  category="exploration", design_ref="DESIGN.md §2 C02",
  text="Runtime oracle with an executable pipeline model: user filters are non-commuting taggers (output spells the order in which filters ran), built-in flags are judged by independent reference implementations with Markup-ness tracked; every pipeline of <=2 (quick) / <=3 (thorough) expression filters over 14 filter spellings x 7 default_filters settings x 6 page expression_filter settings x 3 values is rendered on real templates, plus random longer pipelines; filter= on def/block/anonymous block/<%text>, buffered defs with buffer_filters and capture() are rendered under the same model; 40 expression spellings containing | } # quotes, newlines and comments inside brackets are rendered under 3 layouts and compared with native eval of the spelling.",
  note="Trusted: the 40-line pipeline model and reference escapers in checks/c02.py. Not asserted: trailing comma in a filter list; what the buffer does with a non-str value when no filter produced a string.",
  technique="runtime oracle: tagging filters + executable pipeline model over exhaustively enumerated short pipelines"),
 "C01": dict(
  category="exploration", design_ref="DESIGN.md §2 C01",
  text="The real Lexer runs under a cursor monitor (every cascade step recorded with cursor before/after and nodes appended) on every concatenation of <=k directive-fragment tokens (exhaustive; k=3 quick, k=4/5 thorough); a trace checker decides conservation (steps tile the source, every consumed character is in a node or is documented vanishing syntax, node positions convert back to their offsets). Rendered output is compared with an independent reference scanner for the literal/escape fragment and with by-construction expected output on random long documents. Termination/time is decided on CPU-time growth ratios of adversarial repetition families measured in child processes.",
  note="Trusted: the harness's own copy of the consumption grammar and reference scanner; time bound is the bounded restatement 'no super-polynomial growth on the listed families up to n=8k'. One open known finding (exponential tag-attribute regex).",
  technique="lexer cursor trace monitor + by-construction render oracle + CPU-time growth monitor"),
 "C03": dict(
  category="exploration", design_ref="DESIGN.md §2 C03",
  text="Dual emission: a random nest of control structures (if/elif/else, for/else over lists/tuples/strings/generators/ranges, while, try/except, with, <% %> blocks with assignments, break/continue/return/raise, def calls, comment-only and empty bodies) is printed as a Mako template under 3 of 4 layouts (indentation of % lines, tight '%if', block margins incl. tabs, CRLF) and as an equivalent Python function that is executed as the oracle; `loop` attributes are recomputed by an independent loop-record class; output or exception type and side effects must agree and Template.code must compile. enable_loop off / re-enabled by <%page> is checked on directed templates.",
  note="Trusted: CPython executing the dual emission; the generator in checks/c03.py. Not asserted: `loop` inside the else clause of its own loop; `% finally:` (rejected by Mako's control-line analysis and not in the statement).",
  technique="dual emission differential oracle (template vs equivalent Python) over grammar-generated programs"),
 "C04": dict(
  category="exploration", design_ref="DESIGN.md §2 C04",
  text="By-construction oracle: one variable is bound at every subset (size <=3 quick, <=5 thorough) of 9 binding sites, each binding carrying a sentinel naming its site, and read at each of 9 read sites through a module-level show() helper, under strict_undefined on/off and 3 layouts; the expected sentinel (or UNDEFINED, or a NameError naming the variable) is the first hit in the statement's order; the product is enumerated exhaustively on real templates through a TemplateLookup. Context isolation (deep comparison of render arguments, context.kwargs from three scopes and after mutation, includes and inherited bases seeing the context value of a name the body reassigned) and the reserved names (4 names x 5 render entry points, x 8 binding forms at compile time) are checked by directed scenarios.",
  note="Trusted: the resolution order table in checks/c04.py (taken from the statement). Not asserted: module-level vs body-handed-down values inside defs; body loop targets inside defs. One open known finding (identifier named like a filter flag inside a filter-call argument).",
  technique="by-construction sentinel oracle over the exhaustive binding-site x read-site product"),
 "C05": dict(
  category="exploration", design_ref="DESIGN.md §2 C05",
  text="Reference-model monitor: generated documents (defs in a DAG with every parameter kind, buffered/filter/decorator flags, nested defs, calls by name / via self / inside string concatenation / via capture / as arguments, calls with content in both tag styles nested to depth 3-4 with body arguments and nested defs, caller.body() invoked 0-3 times, inside % if / % for) are rendered by Mako and by an independent reference interpreter (mk/tdoc.py: explicit buffer stack, caller objects as closures of the calling scope, argument binding through inspect.signature); output or exception type must agree. A sys.settrace render-state monitor asserts on every frame of the generated module that buffer-stack depth, caller-stack depth and the pending caller at exit equal those at entry.",
  note="Trusted: the reference interpreter (rules in DESIGN.md appendix A). Not generated: capture() of buffered defs, decorators on buffered defs. One open known finding (bare '*' of a def signature is dropped; pinned by test_def_py3k_args_quirk).",
  technique="reference-interpreter differential oracle + settrace render-state invariant monitor over grammar-generated templates"),
 "C06": dict(
  category="exploration", design_ref="DESIGN.md §2 C06",
  text="Reference-model monitor: inheritance chains of length 1-5 whose templates declare subsets of defs, named blocks (optionally calling parent.<block>()), anonymous blocks, module attributes and <%page args>, with bodies that call self/next/parent/local members, read .attr attributes and chain through next.body(**args), with static or dynamic <%inherit>, are rendered by Mako and by a 40-line reference resolution; every member prints <name>@<template> so the output spells the dispatch. All declared/not-declared assignments of one def, one block and one attribute over chains of length <=3 are enumerated with a probing body that calls every namespace x member; longer chains are random. Invalid block placements (duplicates, named block in def / in <%call>) must raise CompileException at construction.",
  note="Trusted: the reference resolution in checks/c06.py. Missing members are compared by exception class only.",
  technique="reference-model differential oracle over enumerated and random inheritance chains"),
 "C07": dict(
  category="exploration", design_ref="DESIGN.md §2 C07",
  text="Reference-model monitor: generated sets of 2-8 templates in directory trees (backed by real files in one or two roots, or by put_string) are connected by <%include> (with/without args), <%namespace> (tag()/body(), inline defs, import=, inheritable reached through self from a derived template, module=), <%inherit> and the Namespace API, spelled as relative (plain, ./, ../, sub/) or absolute URIs, a few unresolvable; every template prints a tag naming its own file, the context value and <%page> argument it sees, whether `parent` is in its context and what self.tag() is, so the output states which file was reached with which context; expected output comes from a reference that resolves URIs with posixpath against the URI of the template the reference is written in.",
  note="Trusted: the reference in checks/c07.py. Not asserted: whether using a def of a template already evaluates that template's other (unresolvable) namespace declarations; dot segments with put_string keys. One open known finding (included template that inherits does not get context-supplied <%page> arguments).",
  technique="reference-model differential oracle over generated template sets with by-construction file tags"),
 "C08": dict(
  category="exploration", design_ref="DESIGN.md §2 C08",
  text="Differential runtime oracle without a model: generated templates (C05 documents, C01 Unicode documents, 'set-order' templates aimed at generated code that iterates over sets, defs-only templates) are rendered on 10 in-process paths (Template from string / file / module directory first load and reload, ModuleTemplate over the generated module file, render, render_unicode, render_context, the mako-render command through mako.cmd.cmdline, get_def(name).render vs a wrapper template) and, in fresh child processes under PYTHONHASHSEED 0/1/2/3/random, on the string / file / module-reload paths; all outputs, Template.source, the uri/filename metadata in Template.code and has_def/list_defs must agree. Lookup variants (module_directory, modulename_callable, 5 URI spellings, 3 URIs differing only in punctuation loaded side by side) are compared the same way.",
  note="Trusted: nothing beyond equality of observations. mako-render is driven without --output-encoding. One open known finding (module id collision for URIs differing only in non-word characters; repair blocked by pinned module names).",
  technique="differential execution across construction/render paths and hash seeds (subprocess per seed)"),
 "C09": dict(
  category="exploration", design_ref="DESIGN.md §2 C09",
  text="Every URI of the stated segment/separator/leading alphabet (exhaustive up to 4 segments quick, 6 thorough) is looked up on real TemplateLookup objects over a fixture tree with canary files at every place a traversal could land, directly and through include/inherit/namespace/Namespace-API calls from callers at depth 0..3; a sys.addaudithook file-access monitor, the realpath of every returned Template.filename and a canary scan of the output decide containment.",
  note="Trusted: os.path.realpath and the audit hook's coverage of open/mkdir/rename/remove/mkstemp/shutil events; symlinks and spellings outside the alphabet are not explored.",
  technique="audit-hook file-access monitor + containment oracle over exhaustively enumerated URIs"),
 "C11": dict(
  category="exploration", design_ref="DESIGN.md §2 C11",
  text="Fault planting: generated well-formed documents under varied layouts (leading blank lines, CRLF, indentation, multi-line text, continuation lines, tabs) receive exactly one faulty construct of 25 classes (Python syntax errors in expression single/multi-line, control/elif line, a chosen line of a <% %> or <%! %> block, def signature, page args, filter list, attribute expression, <%call expr>; unterminated ${ / <%; unknown tag; closing tag without opening; mismatched closing tag; unterminated / mismatched / stray / illegal-continuation control keywords; duplicate block; named block in def; missing or illegal attribute; unclosed tag; invalid control line). The expected line comes from the emitter's own line counter and, inside Python code, from the line CPython itself reports for the same code; checked on every construction path (string, file, lookup, module directory): exception class, .lineno, .pos, .filename, .source, agreement of the four paths, RichTraceback().lineno/.source and the text error template.",
  note="Trusted: the emitter's line/column counter and CPython's SyntaxError.lineno. Not asserted: column of an expression whose FILTER part is unterminated (pinned by test_unterminated_expression_filter). One open known finding (unclosed tag reported at end of template; pinned by test_unclosed_tag).",
  technique="fault planting with an independent line/column counter over generated documents x 4 construction paths"),
 "C12": dict(
  category="exploration", design_ref="DESIGN.md §2 C12",
  text="Planting with an independent line counter: documents are assembled from units whose line numbers the assembler keeps itself; one raising call to a harness function is planted per case at 15 kinds of position (expression single/multi-line, control-line condition, a chosen line of a <% %> block, def body, nested def, call body, named/anonymous block, filter function, decorator, included template, namespace def, inherited base, inheriting child); in the handler every record of RichTraceback() is judged: template frames must carry the right template filename/URI, that template's source and a line inside it, the innermost template frame and every planted call-site frame must carry the planted lines (in order) with the text of that line, plain Python frames must equal traceback.extract_tb; the text and HTML error templates and format_exceptions output must show '<template>, line N' with the line's text. Compile-time SyntaxWarnings and warnings.warn() in <%! %> are recorded under filter actions always/once/error and must be shown exactly once against the template's filename and line. All on 4 construction paths (put_string, file via lookup, module directory first load and reload).",
  note="Trusted: the assembler's line counter. Glue frames that correspond to no construct only need the right template and an in-range line. One open known finding (frame that invokes a <%block>; repair blocked by two pinned tests).",
  technique="fault planting with an independent line counter; recorded traceback/warning events judged against planted positions"),
 "C13": dict(
  category="fault_enumeration", design_ref="DESIGN.md §2 C13",
  text="Fault enumeration over generated documents (C05 grammar plus filtered blocks, <%text filter>, includes, an inherited base, loops with loop.index, cached defs, a raising filter and a raising decorator): EVERY node position is a raise point, one at a time (as a <% raise %> block, a raising call in an expression, a raising argument expression, inside the filter function, before/after the wrapped call in the decorator, inside a cached def's creation function), x EVERY enclosing handler position (% try around the raise point and around each ancestor in turn, include_error_handler, error_handler returning True, the caller of render_context, none). Oracles: the reference interpreter (abandoned buffers dropped, direct writes kept), the settrace render-state monitor on every template frame, identity (`is`) of the propagating exception object, a marker written through the same Context after a failed render_context plus the depths of its stacks, the format_exceptions page, and a second (disarmed) and third (re-armed) render of the same Template with cache state carried along.",
  note="Trusted: mk/tdoc.py; raise points are positions between document nodes and inside user-supplied callables, not inside Mako's own runtime functions. Not generated: caller.body() inside an anonymous <%block>, <%block> inside a call body that uses body arguments.",
  technique="exception injection at every document position x handler position, judged by a reference interpreter and a render-state invariant monitor"),
 "C14": dict(
  category="exploration", design_ref="DESIGN.md §2 C14",
  text="History + executable model: real TemplateLookup objects over real files run operation histories on a virtual clock (codegen time, LRU timer and module mtimes driven by the harness); every template prints uri@dir#version so each get_template result is judged against the model's prediction (same object and zero constructions / new object with the current version / exception class), and after every operation the 1.5n bound and the eviction order are checked against the model's recency list. All histories of length <=4 (quick) / <=5 (thorough) over a 10-operation alphabet are enumerated under 4 configurations; longer ones are random.",
  note="Trusted: the lookup model in checks/c14.py and the virtual clock shims; same-second modifications are accepted either way as the statement allows. One open known finding (module file shared between directories).",
  technique="recorded operation histories checked against an executable lookup model on a virtual clock"),
 "C15": dict(
  category="fault_enumeration", design_ref="DESIGN.md §2 C15",
  text="Fault enumeration in child processes: a file-system fault injector wraps the calls made for the module file (exists/stat/makedirs/mkstemp/write/close/move/rename), a fault-free pass counts them, and then EVERY k-th call is made to raise, or the process is killed before it, after it, or midway through the write (50%, 99%); after each crash the module path must hold nothing, the complete previous or the complete new module (byte comparison with a reference run on the same logical clock), and a fresh process as well as the current one must load and render the current source. In-process histories (all of length <=4/5 over 7 operations) are judged by a staleness model incl. inode/bytes stability and module_writer call counts; 2-8 processes race on the same Template.",
  note="Trusted: os._exit models process death with the kernel intact; power-loss/fsync ordering is invisible from user space; short writes that do not kill the process are not injected.",
  technique="file-system fault injection at every call + crash-state oracle + staleness model over histories"),
 "C16": dict(
  category="exploration", design_ref="DESIGN.md §2 C16",
  text="Deterministic scheduling: managed threads run only when a scheduler written for this check grants them the turn; TemplateLookup._mutex is replaced by a scheduler-aware lock (blocked threads are known, so 'no runnable thread, some blocked' is detected as a deadlock), scheduling points sit at lock acquire/release, os.stat, os.path.isfile, every collection access and Template construction (coarse) and at every executed line of lookup.py/util.py - for renders also runtime.py and cache.py - through sys.monitoring LINE events. 14 lookup scenarios (same/different URIs, modification, broken file, fix, delete, LRU churn, LRU + modification) are explored by DFS over every schedule within a preemption bound at the coarse points (thorough: all interleavings for the one-get scenarios), by preemption-bounded DFS and seeded random-priority schedules at line level, and by free-running threads with a 1 microsecond switch interval; concurrent renders of one fresh Template (inheritance, include, namespace, cached def, loop) are scheduled the same way. Per call: complete Template, version no older than at call start under C14's freshness rule, only documented exceptions, nobody left blocked, first requests construct once and share the object, bound at quiescence, lookup serves the current version afterwards; renders equal their solo output.",
  note="Trusted: atomicity of single bytecodes / dict operations under the GIL; the virtual clock; modifications are atomic w.r.t. the scheduler. Exhaustive only within the stated preemption bounds and scenario sizes; line-level DFS is capped per scenario.",
  technique="deterministic thread scheduler (sys.monitoring line events + scheduler-aware lock), DFS / random-priority schedule exploration with per-call history oracle"),
 "C17": dict(
  category="exploration", design_ref="DESIGN.md §2 C17",
  text="History + executable cache model: generated templates (page, defs with arguments and cache_key, nested def, named and anonymous blocks, cached in any combination, buffered/filter flags, cache_* arguments at template/page/section level) run histories of render / invalidate_body / invalidate_def / invalidate_closure / invalidate(key) / set/get / cache_enabled toggles; every section prints an execution counter supplied through the context, so output and counters together show replay vs re-execution; a recording CacheImpl registered with mako.cache logs every backend call and its keyword arguments (precedence, int timeout, context on request). Backends: recording, Beaker memory/file, dogpile; several templates share a backend, including URIs that differ only in punctuation.",
  note="Trusted: the 60-line cache model in checks/c17.py; expiry is not exercised (real-time backends). One open known finding (Cache.id collision for URIs differing only in non-word characters), recognised by a second model universe that reproduces the observation exactly.",
  technique="recorded render/invalidate histories checked against an executable cache model + recording backend"),
 "C18": dict(
  category="exploration", design_ref="DESIGN.md §2 C18",
  text="Differential runtime oracle against CPython's codecs plus by-construction expected output: generated templates (text, expression literals, <% %> string literals, def defaults, tag attribute values) with characters sampled from the repertoire of each of 11 codecs are encoded and declared in 7 ways (comment, input_encoding, both, conflicting, none, BOM with conflicting comment, declared ASCII with high bytes) and compiled from bytes, a file, into a module directory, reloaded from the module file in the same and in a fresh process; Template.source is compared with the decoded text; render() is compared with render_unicode().encode(output_encoding, encoding_errors) for 6 output settings including matching UnicodeEncodeError under strict.",
  note="Trusted: CPython codecs. The whole codec x declaration x path x output grid is enumerated; template bodies per cell are sampled.",
  technique="differential runtime oracle against CPython codecs over the codec x declaration x path x output grid"),
 "C19": dict(
  category="exploration", design_ref="DESIGN.md §2 C19",
  text="CPython is the runtime oracle: random expression trees over the whole ast expression grammar (depth<=5) are re-emitted by Mako's ExpressionGenerator and compared by ast.dump and by value, and a sample runs end-to-end as def/page defaults and filter-call arguments; generated statement blocks (functions with every parameter kind, lambdas, comprehensions, try/with/loops/imports) run under strict_undefined with exactly the names CPython's symtable says they need and must equal native exec, and must raise NameError naming a removed name; 18 tricky block shapes are re-margined at 0..12 spaces/tabs in <% %> and <%! %> and compared with native exec.",
  note="Trusted: CPython ast/symtable/eval/exec. Blocks never read a name before binding it in the same scope. Two open known findings (printer triple-quote counting; top-level comprehension target treated as body local).",
  technique="differential runtime oracle against CPython (ast.dump / eval / exec / symtable) over grammar-generated programs"),
 "C10": dict(
  category="exploration", design_ref="DESIGN.md §2 C10",
  text="Runtime oracle over the real filter functions: every code point (exhaustive), every string of length <=3 over the markup alphabet (exhaustive), random mixtures, and the same strings through compiled templates; outputs judged by independent reference decoders. Exhaustive enumeration of single code points is the natural bound for per-character escaping functions.",
  note="Trusts html.entities tables, urllib.parse.unquote_plus and CPython codecs as reference decoders; strings longer than 3 are sampled, not enumerated.",
  technique="runtime oracle with reference decoders over exhaustive + random inputs"),
 "C20": dict(
  category="exploration", design_ref="DESIGN.md §2 C20",
  text="Planting with an independent line counter: unique messages in _(), gettext(), ngettext() calls are written into 16 kinds of Python-bearing constructs (expressions single/multi-line and with two calls, filter-call arguments, if/elif/for control lines, lines of <% %> and <%! %> blocks, def, block and page signatures, <%call expr>, <%ns:def> attribute expressions, def bodies) with LF/CRLF and non-ASCII messages in utf-8/latin-1/cp1251, decoy calls in plain text, <%text>, <%doc>, ## comments and %% lines, translator comments directly before a construct (must attach to exactly its own messages) and three lines before (must not); the expected multiset {(line, function, messages)} is compared with the tuples yielded by mako.ext.babelplugin.extract (bytes + encoding option) and with the Message objects of LinguaMakoExtractor.",
  note="Trusted: the assembler's line counter; Babel's and Lingua's own Python extractors for plain Python. Not asserted: calls inside <%include file=> / filter= attributes of defs; gettext calls used as the exception class of a % except line.",
  technique="planting with an independent line counter; extractor output compared as a multiset with the planted calls"),
}
def main():
    checks = []
    for pid in ALL:
        if pid not in CHECKS:
            continue
        c = CHECKS[pid]
        checks.append({
            "property_id": pid,
            "quick_cmd": "/venv/bin/python run.py %s --tier quick" % pid,
            "thorough_cmd": "/venv/bin/python run.py %s --tier thorough" % pid,
            "evidence_file": "evidence/%s.json" % pid,
            "replay_cmd_template": "/venv/bin/python run.py %s --replay {path}" % pid,
            "engine": "mk",
            "level_claimed": {"category": c["category"], "text": c["text"], "design_ref": c["design_ref"]},
            "level_note": c["note"],
            "technique": c["technique"],
        })
    na = [{"property_id": p, "reason": "check not built yet in this round (runtime monitoring applies; see DESIGN.md §2)"} for p in ALL if p not in CHECKS]
    m = {
        "version": 1,
        "setup_cmd": "mkdir -p evidence replays",
        "hooks": {
            "guard": "MAKO_VERIF",
            "enable": "no hooks are compiled into /repo: checks import /repo's working tree (VERIF_REPO, default /repo) in fresh worker processes and wrap its classes from outside",
            "baseline_off_cmd": "cd /repo && /venv/bin/python -m pytest -ra -q -p no:cacheprovider --timeout=900 --continue-on-collection-errors",
            "source_commits": [],
            "add_only": True,
        },
        "engines": [{
            "name": "mk", "path": "run.py",
            "serves_properties": [c["property_id"] for c in checks],
            "kind_free_text": "runtime monitoring: sharded workload driver + monitors/oracles in mk/, one module per property in checks/",
        }],
        "checks": checks,
        "not_applicable": na,
        "notes": "Technique family: runtime monitoring. known_findings.json lists genuine defects (open = recognised by mechanism, fixed = repaired by a fix: commit in /repo).",
    }
    with open(os.path.join(HERE, "MANIFEST.json"), "w") as f:
        json.dump(m, f, indent=1)
        f.write("\n")
main()

#!/venv/bin/python
"""Driver:  run.py <ID> [--tier quick|thorough] [--replay file] [--jobs N]

Exit 0: property held on everything observed (KNOWN-FINDING lines may be printed).
Exit 1: `VIOLATION property=<ID> replay=<path>` printed for every distinct unlisted violation.
Exit 2: `INCONCLUSIVE property=<ID> reason=...` (a deciding monitor saw nothing, watchdog fired).
"""
import argparse
import importlib
import json
import os
import subprocess
import sys
import tempfile
import time
import traceback

HERE = os.path.dirname(os.path.abspath(__file__))
sys.path.insert(1, HERE)

from mk import common  # noqa: E402

MAX_KEEP = 40  # violations kept with their case per worker and (kind, finding)


def load_check(pid):
    return importlib.import_module("checks.%s" % pid.lower())


def iter_cases(mod, tier, seed, shard, nshards):
    if getattr(mod, "SHARDED_GEN", False):
        yield from mod.gen_cases(tier, seed, shard, nshards)
    else:
        for i, case in enumerate(mod.gen_cases(tier, seed)):
            if i % nshards == shard:
                yield case


def worker(pid, tier, seed, shard, nshards, outpath):
    mod = load_check(pid)
    common.use_repo()
    if hasattr(mod, "setup_worker"):
        mod.setup_worker()
    out = {
        "evaluations": 0,
        "cases": 0,
        "fingerprints": set(),
        "bulk_distinct": 0,
        "violations": [],
        "violation_count": 0,
        "counters": {},
        "samples": [],
    }
    kept = {}
    # a worker stops taking new cases after its budget (counted as budget_stops, never silently)
    default_budget = getattr(mod, "WORKER_BUDGET", {}).get(tier, 600 if tier == "quick" else 5400)
    deadline = time.time() + float(os.environ.get("VERIF_WORKER_BUDGET", default_budget))
    for case in iter_cases(mod, tier, seed, shard, nshards):
        if time.time() > deadline:
            out["counters"]["budget_stops"] = out["counters"].get("budget_stops", 0) + 1
            break
        try:
            res = mod.run_case(case)
        except BaseException as e:  # harness bug or escaping exception: never silent
            res = common.CaseResult()
            res.evaluations = 1
            res.violate(
                "harness-exception",
                "run_case raised %s: %s\n%s" % (type(e).__name__, e, traceback.format_exc()[-1500:]),
            )
        out["cases"] += 1
        out["evaluations"] += res.evaluations
        out["fingerprints"].update(res.fingerprints)
        out["bulk_distinct"] += res.bulk_distinct
        for k, v in res.counters.items():
            out["counters"][k] = out["counters"].get(k, 0) + v
        for v in res.violations:
            out["violation_count"] += 1
            key = (v["kind"], v.get("finding"))
            kept[key] = kept.get(key, 0) + 1
            if kept[key] <= MAX_KEEP:
                v = dict(v)
                v["case"] = v.pop("replay_case", None) or case
                out["violations"].append(v)
        if res.sample is not None and len(out["samples"]) < 3:
            out["samples"].append(res.sample)
        elif len(out["samples"]) < 1 and res.fingerprints:
            out["samples"].append(common.jsonable(case))
    if hasattr(mod, "finish_worker"):
        for k, v in (mod.finish_worker() or {}).items():
            out["counters"][k] = out["counters"].get(k, 0) + v
    out["fingerprints"] = sorted(out["fingerprints"])
    with open(outpath, "w") as f:
        json.dump(common.jsonable(out), f)


def load_known(pid):
    path = os.path.join(HERE, "known_findings.json")
    if not os.path.exists(path):
        return {}
    with open(path) as f:
        data = json.load(f)
    return {
        e["id"]: e
        for e in data.get("findings", [])
        if e["property"] == pid and e.get("status", "open") == "open"
    }


def write_evidence(mod, pid, tier, seed, agg, wall, nviol, extra=None):
    cov = {
        "evaluations": agg["evaluations"],
        "distinct_nontrivial": ndistinct(agg),
        "rule": mod.RULE,
        "samples": agg["samples"][:6] or ["<no case completed>"],
        "cases": agg["cases"],
        "monitor_events": dict(sorted(agg["counters"].items())),
        "known_findings_met": sorted(agg["known_met"]),
        "exhaustive": bool(getattr(mod, "EXHAUSTIVE", {}).get(tier, False)),
    }
    if extra:
        cov.update(extra)
    ev = {
        "property_id": pid,
        "tier": tier,
        "seed": seed,
        "level": mod.LEVEL,
        "coverage": cov,
        "assumptions": list(getattr(mod, "ASSUMPTIONS", [])),
        "wall_s": round(wall, 2),
        "violations": nviol,
    }
    evdir = os.path.join(HERE, "evidence")
    if common.REPO != "/repo":
        # calibration run against a scratch copy: never overwrite the evidence of /repo itself
        evdir = os.path.join(tempfile.gettempdir(), "verif-evidence-scratch")
    os.makedirs(evdir, exist_ok=True)
    path = os.path.join(evdir, "%s.json" % pid)
    tmp = path + ".tmp"
    with open(tmp, "w") as f:
        json.dump(common.jsonable(ev), f, indent=1, ensure_ascii=True)
        f.write("\n")
    os.replace(tmp, path)


def ndistinct(agg):
    return len(agg["fingerprints"]) + agg.get("bulk_distinct", 0)


def decide(mod, pid, agg, known, tier):
    """-> (exit code, lines)"""
    lines = []
    unlisted = {}
    for v in agg["violations"]:
        fid = v.get("finding")
        if fid and fid in known:
            if fid not in agg["known_met"]:
                agg["known_met"][fid] = v
            continue
        key = (v["kind"], fid)
        unlisted.setdefault(key, []).append(v)
    for fid, v in sorted(agg["known_met"].items()):
        lines.append(
            "KNOWN-FINDING: property=%s %s: %s"
            % (pid, fid, common.short(v.get("witness") or v["detail"], 200).replace("\n", "\\n"))
        )
    rdir = os.path.join(HERE, "replays", pid)
    if os.path.isdir(rdir):
        for fn in os.listdir(rdir):  # replays of earlier runs are stale
            os.remove(os.path.join(rdir, fn))
    if unlisted:
        os.makedirs(rdir, exist_ok=True)
        for (kind, fid), vs in sorted(unlisted.items(), key=lambda kv: str(kv[0])):
            vs.sort(key=lambda v: len(json.dumps(common.jsonable(v["case"]))))
            for v in vs[:3]:
                name = "%s-%s.json" % (
                    "".join(c if c.isalnum() else "_" for c in kind)[:40],
                    common.fp(common.jsonable(v["case"]), v["detail"])[:10],
                )
                path = os.path.join(rdir, name)
                with open(path, "w") as f:
                    json.dump(common.jsonable({"property": pid, "tier": tier, **v}), f, indent=1)
                lines.append("VIOLATION property=%s replay=%s" % (pid, path))
                lines.append("  kind=%s: %s" % (kind, common.short(v["detail"], 400).replace("\n", "\\n")))
        return 1, lines
    reasons = []
    if agg["timeouts"]:
        reasons.append("%d worker(s) hit the wall-clock watchdog" % agg["timeouts"])
    if agg["crashed"]:
        reasons.append("%d worker(s) died: %s" % (len(agg["crashed"]), agg["crashed"][0]))
    floor = getattr(mod, "MIN_NONTRIVIAL", 2)
    if ndistinct(agg) < floor:
        reasons.append("only %d distinct non-trivial cases (floor %d)" % (ndistinct(agg), floor))
    for c in getattr(mod, "REQUIRED_COUNTERS", []):
        if agg["counters"].get(c, 0) <= 0:
            reasons.append("monitor counter %s stayed at 0" % c)
    if reasons:
        lines.append("INCONCLUSIVE property=%s reason=%s" % (pid, "; ".join(reasons)))
        return 2, lines
    return 0, lines


def drive(pid, tier, seed, jobs):
    mod = load_check(pid)
    t0 = time.time()
    if hasattr(mod, "drive"):
        # checks with their own process structure (C08, C15, C16) produce the aggregate themselves
        agg = mod.drive(tier, seed, jobs)
    else:
        agg = run_workers(mod, pid, tier, seed, jobs)
    agg.setdefault("known_met", {})
    agg.setdefault("timeouts", 0)
    agg.setdefault("crashed", [])
    known = load_known(pid)
    code, lines = decide(mod, pid, agg, known, tier)
    nviol = sum(1 for ln in lines if ln.startswith("VIOLATION"))
    write_evidence(mod, pid, tier, seed, agg, time.time() - t0, nviol, agg.get("extra"))
    for ln in lines:
        print(ln)
    print(
        "%s tier=%s seed=%d cases=%d evaluations=%d distinct_nontrivial=%d violations=%d known=%d wall=%.1fs -> %s"
        % (
            pid,
            tier,
            seed,
            agg["cases"],
            agg["evaluations"],
            ndistinct(agg),
            nviol,
            len(agg["known_met"]),
            time.time() - t0,
            {0: "HELD", 1: "VIOLATED", 2: "INCONCLUSIVE"}[code],
        )
    )
    return code


def run_workers(mod, pid, tier, seed, jobs, extra_env=None):
    nshards = getattr(mod, "SHARDS", {}).get(tier, jobs)
    timeout = getattr(mod, "SHARD_TIMEOUT", {}).get(tier, 900 if tier == "quick" else 7200)
    tmpdir = tempfile.mkdtemp(prefix="verif-%s-" % pid)
    procs = []
    env = dict(os.environ)
    env.setdefault("PYTHONHASHSEED", "0")
    env["PYTHONDONTWRITEBYTECODE"] = "1"
    if extra_env:
        env.update(extra_env)
    agg = {
        "evaluations": 0,
        "cases": 0,
        "fingerprints": set(),
        "bulk_distinct": 0,
        "violations": [],
        "counters": {},
        "samples": [],
        "timeouts": 0,
        "crashed": [],
        "known_met": {},
    }
    try:
        pending = list(range(nshards))
        running = []
        while pending or running:
            while pending and len(running) < jobs:
                s = pending.pop(0)
                outp = os.path.join(tmpdir, "out%d.json" % s)
                logp = os.path.join(tmpdir, "log%d.txt" % s)
                lf = open(logp, "w")
                p = subprocess.Popen(
                    [common.PYTHON, os.path.join(HERE, "run.py"), pid, "--tier", tier, "--worker",
                     "%d/%d" % (s, nshards), "--out", outp, "--seed", str(seed)],
                    stdout=lf, stderr=subprocess.STDOUT, env=env, cwd=tmpdir,
                )
                running.append((p, s, outp, logp, lf, time.time()))
            time.sleep(0.05)
            still = []
            for item in running:
                p, s, outp, logp, lf, st = item
                rc = p.poll()
                if rc is None:
                    if time.time() - st > timeout:
                        p.kill()
                        p.wait()
                        lf.close()
                        agg["timeouts"] += 1
                    else:
                        still.append(item)
                    continue
                lf.close()
                if rc != 0 or not os.path.exists(outp):
                    with open(logp) as f:
                        tail = f.read()[-1500:]
                    agg["crashed"].append("shard %d rc=%s: %s" % (s, rc, tail))
                    continue
                with open(outp) as f:
                    o = json.load(f)
                agg["evaluations"] += o["evaluations"]
                agg["cases"] += o["cases"]
                agg["fingerprints"].update(o["fingerprints"])
                agg["bulk_distinct"] += o.get("bulk_distinct", 0)
                agg["violations"].extend(o["violations"])
                for k, v in o["counters"].items():
                    agg["counters"][k] = agg["counters"].get(k, 0) + v
                if len(agg["samples"]) < 6:
                    agg["samples"].extend(o["samples"][:2])
            running = still
    finally:
        import shutil

        shutil.rmtree(tmpdir, ignore_errors=True)
    return agg


def replay(pid, path):
    mod = load_check(pid)
    common.use_repo()
    if hasattr(mod, "setup_worker"):
        mod.setup_worker()
    with open(path) as f:
        rec = json.load(f)
    case = rec["case"] if "case" in rec else rec
    res = mod.run_case(case)
    known = load_known(pid)
    bad = 0
    for v in res.violations:
        fid = v.get("finding")
        if fid and fid in known:
            print("KNOWN-FINDING: property=%s %s: %s" % (pid, fid, common.short(v["detail"], 300)))
        else:
            bad += 1
            print("VIOLATION property=%s replay=%s" % (pid, path))
            print("  kind=%s: %s" % (v["kind"], v["detail"]))
    if not res.violations:
        print("replay: no violation (evaluations=%d)" % res.evaluations)
    return 1 if bad else 0


def main():
    ap = argparse.ArgumentParser()
    ap.add_argument("pid")
    ap.add_argument("--tier", default=os.environ.get("VERIF_TIER", "quick"), choices=["quick", "thorough"])
    ap.add_argument("--seed", type=int, default=int(os.environ.get("VERIF_SEED", "0")))
    ap.add_argument("--jobs", type=int, default=int(os.environ.get("VERIF_JOBS", "0")) or min(16, os.cpu_count() or 4))
    ap.add_argument("--replay")
    ap.add_argument("--worker")
    ap.add_argument("--out")
    a = ap.parse_args()
    pid = a.pid.upper()
    if a.worker:
        s, n = a.worker.split("/")
        worker(pid, a.tier, a.seed, int(s), int(n), a.out)
        return 0
    if a.replay:
        return replay(pid, a.replay)
    return drive(pid, a.tier, a.seed, a.jobs)


if __name__ == "__main__":
    sys.exit(main())

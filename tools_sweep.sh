#!/bin/bash
# usage: tools_sweep.sh <tier> <seed>...   runs every registered check (or those named in SWEEP_IDS) for each seed, prints the verdict lines
TIER=$1; shift
cd "$(dirname "$0")"
for seed in "$@"; do
  for id in ${SWEEP_IDS:-C01 C02 C03 C04 C05 C06 C07 C08 C09 C10 C11 C12 C13 C14 C15 C16 C17 C18 C19 C20}; do
    out=$(VERIF_SEED=$seed timeout 7200 /venv/bin/python run.py $id --tier $TIER 2>&1)
    echo "$out" | tail -1
    echo "$out" | grep -E "^VIOLATION|^INCONCLUSIVE|^  kind=" | head -6 | cut -c1-600
  done
done

#!/bin/bash
# usage: tools_seed_eval.sh <property-id> <worktree-with-patch-applied> [tier] [extra check ids...]
# 1. extracts the patch, 2. re-checks the pinned suite and the demo in both directions, 3. runs the check(s) against
# a scratch copy of /repo with the patch.  Nothing is applied to /repo.
set -u
ID=$1; WT=$2; TIER=${3:-quick}; shift; shift; shift || true
EXTRA="$@"
S=$(mktemp -d /tmp/seed-XXXXXX)
if [ -s $WT/seed/patch.diff ]; then cp $WT/seed/patch.diff $S/patch.diff; else git -C $WT diff -- mako > $S/patch.diff; fi
echo "== patch: $(grep -c '^[+-][^+-]' $S/patch.diff) changed lines in $(grep -c '^diff' $S/patch.diff) file(s)"
cp -r /repo/. $S/repo 2>/dev/null; rm -rf $S/repo/.git
( cd $S/repo && patch -p1 -s < $S/patch.diff ) || { echo "PATCH DOES NOT APPLY to /repo HEAD"; rm -rf $S; exit 3; }
echo "== pinned suite with the patch:"; ( cd $S/repo && /venv/bin/python -m pytest -q -p no:cacheprovider --timeout=900 2>&1 | tail -1 ); rm -rf $S/repo/test/templates/modules
if [ -f $WT/seed/demo.py ]; then
  sed "s#$WT#$S/repo#g" $WT/seed/demo.py > $S/repo/demo_patched.py
  ( cd $S/repo && timeout 300 /venv/bin/python demo_patched.py > $S/demo1.out 2>&1 ); echo "== demo on patched copy: exit $? : $(tail -1 $S/demo1.out | cut -c1-200)"
  sed "s#$WT#/repo#g" $WT/seed/demo.py > $S/demo_clean.py
  ( cd /repo && timeout 300 /venv/bin/python $S/demo_clean.py > $S/demo2.out 2>&1 ); echo "== demo on /repo (unpatched): exit $? : $(tail -1 $S/demo2.out | cut -c1-200)"
fi
cd /verif
for C in $ID $EXTRA; do
  echo "== check $C ($TIER) against the patched copy:"
  VERIF_REPO=$S/repo timeout 3600 /venv/bin/python run.py $C --tier $TIER 2>&1 | grep -E "^VIOLATION|kind=|tier=" | cut -c1-400 | awk '{k=$1" "$2; if(!(k in s)){print}; s[k]=1}' | head -8
done
rm -rf $S
